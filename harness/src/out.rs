//! Sharded NDJSON output + run metadata for the orchestrator.
use serde_json::{json, Value};
use std::collections::HashSet;
use std::fs::File;
use std::io::{BufWriter, Write};
use std::path::PathBuf;

pub struct Shards {
    dir: PathBuf,
    prefix: String,
    max_bytes: usize,
    cur: Option<BufWriter<File>>,
    cur_src: Option<BufWriter<File>>,
    cur_bytes: usize,
    pub nshards: usize,
    pub records: usize,
    pub evaluations: usize,
    seen: HashSet<u64>,
    pub samples: Vec<Value>,
    pub distinct_nontrivial: usize,
}

fn hash(s: &str) -> u64 {
    let mut h: u64 = 0xcbf29ce484222325;
    for b in s.as_bytes() {
        h ^= *b as u64;
        h = h.wrapping_mul(0x100000001b3);
    }
    h
}

impl Shards {
    pub fn new(dir: &str, prefix: &str, max_bytes: usize) -> Self {
        std::fs::create_dir_all(dir).unwrap();
        Shards { dir: PathBuf::from(dir), prefix: prefix.to_string(), max_bytes, cur: None, cur_src: None, cur_bytes: 0, nshards: 0,
                 records: 0, evaluations: 0, seen: HashSet::new(), samples: vec![], distinct_nontrivial: 0 }
    }
    /// `dedup_key`: records with the same key are identical for the judge and written once.
    pub fn push(&mut self, rec: &Value, src: &Value, dedup_key: Option<&str>, nontrivial: bool) {
        self.evaluations += 1;
        let line = serde_json::to_string(rec).unwrap();
        let key = match dedup_key { Some(k) => hash(k), None => hash(&line) };
        if !self.seen.insert(key) {
            return;
        }
        if nontrivial { self.distinct_nontrivial += 1; }
        if self.samples.len() < 3 && nontrivial && line.len() < 3000 {
            self.samples.push(rec.clone());
        }
        if self.cur.is_none() || self.cur_bytes + line.len() > self.max_bytes {
            self.nshards += 1;
            let p = self.dir.join(format!("{}-{:04}.ndjson", self.prefix, self.nshards));
            self.cur = Some(BufWriter::new(File::create(p).unwrap()));
            let ps = self.dir.join(format!("{}-{:04}.src", self.prefix, self.nshards));
            if let Some(mut w) = self.cur_src.take() { w.flush().unwrap(); }
            self.cur_src = Some(BufWriter::new(File::create(ps).unwrap()));
            self.cur_bytes = 0;
        }
        let w = self.cur.as_mut().unwrap();
        w.write_all(line.as_bytes()).unwrap();
        w.write_all(b"\n").unwrap();
        self.cur_bytes += line.len() + 1;
        let ws = self.cur_src.as_mut().unwrap();
        ws.write_all(serde_json::to_string(src).unwrap().as_bytes()).unwrap();
        ws.write_all(b"\n").unwrap();
        self.records += 1;
    }
    pub fn finish(&mut self, extra: Value) {
        if let Some(mut w) = self.cur.take() { w.flush().unwrap(); }
        if let Some(mut w) = self.cur_src.take() { w.flush().unwrap(); }
        let mut meta = json!({"prefix": self.prefix, "shards": self.nshards, "records": self.records,
            "evaluations": self.evaluations, "distinct_nontrivial": self.distinct_nontrivial, "samples": self.samples});
        if let (Some(m), Some(e)) = (meta.as_object_mut(), extra.as_object()) {
            for (k, v) in e { m.insert(k.clone(), v.clone()); }
        }
        std::fs::write(self.dir.join(format!("{}-meta.json", self.prefix)), serde_json::to_string_pretty(&meta).unwrap()).unwrap();
    }
}
