//! C03 job: the full token stream of the real lexer (every capture-flag set, strict and non-strict, several
//! chunkings) next to html5ever's tokens and its tree builder's feedback (witness); judged by
//! spec/TraceWhatwg.tla.
use crate::gen::{self, Rng};
use crate::out::Shards;
use crate::{h5, tokcap};
use serde_json::{json, Value};

fn usable(input: &[u8]) -> bool {
    input.iter().all(|&b| b < 128 && b != b'&' && b != b'\r' && b != 0)
}

/// tag soup over the tag-class alphabet (every text-mode element, select / template / frameset / table
/// tags, case variants) interleaved with text / comments
fn tag_soup(rng: &mut Rng, n: usize) -> Vec<u8> {
    const NAMES: &[&str] = &["title", "textarea", "style", "xmp", "iframe", "noembed", "noframes", "noscript", "script", "plaintext",
        "select", "option", "optgroup", "input", "keygen", "template", "frameset", "frame", "table", "caption", "colgroup", "col",
        "tbody", "tr", "td", "th", "p", "div", "b", "a", "hr", "html", "head", "body", "form", "button", "li", "h1"];
    let mut out = Vec::new();
    for _ in 0..n {
        match rng.below(10) {
            0 => out.extend_from_slice(rng.pick(&["x", "t ", "<", "a<b", "-->", "]]>"]).as_bytes()),
            1 => out.extend_from_slice(rng.pick(&["<!--c-->", "<!-- <b> -->", "<!DOCTYPE html>", "<![CDATA[x]]>"]).as_bytes()),
            2..=6 => { let nm = *rng.pick(NAMES); let shown = if rng.chance(1, 8) { nm.to_ascii_uppercase() } else { nm.to_string() };
                out.extend_from_slice(format!("<{shown}{}>", rng.pick(&["", "", " a=b", " x='<y>'", "/"])).as_bytes()); }
            _ => { let nm = *rng.pick(NAMES); out.extend_from_slice(format!("</{nm}>").as_bytes()); }
        }
    }
    out
}

pub fn job_c03(out_dir: &str, tier: &str, seed: u64) {
    let quick = tier == "quick";
    let mut rng = Rng::new(seed ^ 0xC03);
    let mut sh = Shards::new(out_dir, "c03", 500_000);
    let mut inputs: Vec<Vec<u8>> = gen::corpus(&mut rng, if quick { 26 } else { 60 }, if quick { 600 } else { 8000 });
    for _ in 0..(if quick { 2500 } else { 25000 }) { let k = 2 + rng.below(6); inputs.push(tag_soup(&mut rng, k)); }
    // the claimed domain: tag soup *without* svg / math tags, and (below) documents whose islands are well nested
    let has_foreign = |i: &Vec<u8>| { let low = i.to_ascii_lowercase(); low.windows(4).any(|w| w == b"<svg") || low.windows(5).any(|w| w == b"<math") };
    inputs.retain(|i| !has_foreign(i));
    for _ in 0..(if quick { 1200 } else { 10000 }) { inputs.push(gen::foreign_doc(&mut rng, 12)); }
    // unhashable / special names around every integration point (the tag scanner has to hand these tags to the lexer)
    for ip in ["<math><mi>", "<math><mo>", "<math><mtext>", "<math><annotation-xml encoding=text/html>", "<svg><foreignObject>", "<svg><title>", "<svg><desc>"] {
        for nm in ["x-y", "verylongtagname12", "annotation-xml", "b"] {
            for next in ["<b>u</b>", "<i x=1>v</i>", "<font color=red>w</font>", "<svg><g/></svg>"] {
                inputs.push(format!("{ip}<{nm}>t</{nm}>{next}</p>tail").into_bytes());
                inputs.push(format!("{ip}</{nm}>{next}<{nm} a=b>").into_bytes());
            }
        }
    }
    // a self-closing svg / math root is popped at once: what follows is HTML again (text-mode elements switch the tokenizer)
    for root in ["<svg/>", "<math/>", "<svg x=1 />", "<MATH/>", "<svg/ >", "<p><svg/>", "<svg><svg/></svg>", "<math><mi><math/>"] {
        for x in ["title", "textarea", "style", "script", "xmp", "plaintext", "b"] {
            inputs.push(format!("{root}<{x} a=>t<b>u</b><![CDATA[v]]></{x}><i>w</i>").into_bytes());
        }
    }
    // template x table-structure contexts (the tree builder ignores text-mode tags there)
    for t in ["col", "colgroup", "caption", "tbody", "tr", "td"] {
        for x in ["title", "textarea", "style", "script", "xmp", "plaintext"] {
            inputs.push(format!("<template><{t}><{x}></template><img src=x></{x}>").into_bytes());
            inputs.push(format!("<table><template><{t}><{x}>a</{x}><b></template></table>").into_bytes());
        }
    }
    // transition coverage from the specification (spec/TokCover.tla), HTML namespace only (the claimed domain for soup)
    let cover = gen::cover_inputs(quick, true);
    let stride = 2;
    for (i, (input, _, _)) in cover.iter().enumerate() { if i % stride == 0 { inputs.push(input.clone()); } }
    // every state of the strict-mode ambiguity guard (spec/GuardCover.tla) x every pair of tags x probes
    inputs.extend(gen::guard_cover_inputs(quick));
    inputs.retain(|i| usable(i) && !i.is_empty());
    let mut n = 0usize;
    for (ii, input) in inputs.iter().enumerate() {
        let text = std::str::from_utf8(input).unwrap();
        let (h5toks, wit) = h5::run(text);
        let mut obs = Vec::new();
        let mut seen = std::collections::HashSet::new();
        let bytewise: Vec<usize> = (1..input.len()).collect();
        let mut rc: Vec<usize> = (0..2).map(|_| rng.below(input.len() + 1)).collect(); rc.sort_unstable();
        let mut schedules: Vec<(String, Vec<usize>)> = vec![("single".into(), vec![]), ("bytewise".into(), bytewise), ("random".into(), rc)];
        // every single cut of a short input (a token completed before the boundary, consumed bytes before it)
        if input.len() <= 64 && ii % 2 == 0 { for c in 1..input.len() { schedules.push((format!("cut{c}"), vec![c])); } }
        // capture sets: all, and each single kind (rotating to bound the volume)
        let foreign = { let low = input.to_ascii_lowercase(); low.windows(4).any(|w| w == b"<svg") || low.windows(5).any(|w| w == b"<math") };
        let flagsets: Vec<u8> = if ii % 3 == 0 || foreign { vec![31, 1, 2, 4, 8, 16] } else { vec![31, [1u8, 2, 4, 8, 12, 16, 5][ii % 7]] };
        for &flags in &flagsets {
            for (sname, cuts) in &schedules {
                if flags != 31 && *sname == "bytewise" && ii % 2 == 0 { continue; }
                if flags != 31 && sname.starts_with("cut") { continue; }
                for strict in [true, false] {
                    let (toks, hints, res) = tokcap::capture_with_hints(input, cuts, strict, flags);
                    let key = format!("{flags}|{strict}|{res}|{}|{}", Value::Array(toks.clone()), Value::Array(hints.clone()));
                    sh.evaluations += 1;
                    // identical observations are judged once; the strict/non-strict pair is kept for StrictSame
                    if !seen.insert(key) && sname != "single" { continue; }
                    obs.push(json!({"variant": format!("{sname}/flags={flags}/strict={strict}"), "strict": strict, "flags": flags, "cuts": cuts, "res": res, "toks": toks, "hints": hints}));
                }
            }
        }
        n += 1;
        let rec = json!({"id": format!("c03-{n}"), "input": input, "wit": wit, "h5": h5toks, "obs": obs});
        let src = json!({"id": rec["id"], "input": input, "text": text});
        sh.push(&rec, &src, None, true);
    }
    sh.finish(json!({"rule": "inputs (ASCII, without & CR NUL, which html5ever decodes / normalises and lol-html keeps raw by design): the shared corpus (every fragment, framed fragments, ordered pairs, seeded documents), tag soup of 2-7 items over 38 tag names (all text-mode elements, select / template / frameset / table tags, case variants, attributes) with text / comments / doctype / CDATA, and well-nested SVG / MathML documents; observed through the lexer's own token interface for capture sets all / each single kind, strict and non-strict, single write / byte-wise / random cuts; html5ever 0.39 supplies its token stream (veto) and its tree builder's feedback (witness)."}));
}
