//! Token-level jobs (C14, C16, later C03): the full token stream as handlers see it, projected for
//! spec/TraceTok.tla.
use crate::driver::{self, RunOpts};
use crate::gen::{self, Rng};
use crate::out::Shards;
use serde_json::{json, Value};

pub fn capture_all(mutating: bool) -> Value {
    let el_ops = if mutating {
        json!([{"op":"before","a":["<!--b-->"]},{"op":"set_attr","a":["data-x","1"]},{"op":"set_attr","a":["data-y","2"]},{"op":"rm_attr","a":["data-x"]},
               {"op":"on_end_tag","a":[[{"op":"after","a":["[a]"]},{"op":"set_name","a":["x"]},{"op":"set_name","a":["y"]}]]}])
    } else {
        json!([{"op":"on_end_tag","a":[[]]}])
    };
    let tx_ops = if mutating { json!([{"op":"before","a":["~"],"nonempty":true}]) } else { json!([]) };
    let cm_ops = if mutating { json!([{"op":"set_text","a":["one"]},{"op":"set_text","a":["two"]}]) } else { json!([]) };
    json!({"elem":[{"sel":"*","element":el_ops}], "doc":[{"doctype":[],"comments":cm_ops,"text":tx_ops}], "full":true})
}

/// Capture-all variants for C16: the element selector either matches by name only ('*') or needs the
/// attributes (':not([zz-absent])', so the selector VM takes its attribute path); `edits` are applied to
/// every start tag and followed by a second read of the element.
pub fn capture_all_c16(needs_attrs: bool, edits: &Value) -> Value {
    let mut ops = edits.as_array().cloned().unwrap_or_default();
    ops.push(json!({"op":"on_end_tag","a":[[]]}));
    let sel = if needs_attrs { ":not([zz-absent])" } else { "*" };
    json!({"elem":[{"sel":sel,"element":ops}], "doc":[{"doctype":[],"comments":[],"text":[]}], "full":true})
}

pub fn sparse() -> Vec<Value> {
    vec![
        json!({"elem":[{"sel":"a","element":[{"op":"on_end_tag","a":[[]]}]}], "full":true}),
        json!({"elem":[{"sel":"a[href]","element":[]},{"sel":"title","text":[]},{"sel":"script","text":[]}], "doc":[{"comments":[]}], "full":true}),
        json!({"elem":[{"sel":"div > *","element":[{"op":"on_end_tag","a":[[]]}],"comments":[]}], "full":true}),
        json!({"doc":[{"doctype":[],"comments":[]}], "full":true}),
    ]
}

pub fn project(tl: &[Value]) -> (Vec<Value>, String) {
    let mut toks = Vec::new();
    let mut res = "ok".to_string();
    for e in tl {
        match e["e"].as_str().unwrap_or("") {
            "ret" => {
                if e["res"] != "ok" {
                    res = e["res"].as_str().unwrap().to_string();
                }
            }
            "ev" => {
                let s = e.get("loc").map(|l| l[0].clone()).unwrap_or(json!(0));
                let en = e.get("loc").map(|l| l[1].clone()).unwrap_or(json!(0));
                // the range as reported again after the handler's own edits (same token): [-1, -1] when there were none
                let l2 = e.get("loc2").cloned().unwrap_or(json!([-1, -1]));
                let ntoks = toks.len();
                match e["k"].as_str().unwrap() {
                    "el" => {
                        // edits performed by the handler (arguments as code points) and the element as read afterwards
                        let mut edits = Vec::new();
                        for op in e.get("ops").and_then(|x| x.as_array()).cloned().unwrap_or_default() {
                            let name = op["op"].as_str().unwrap_or("");
                            if !matches!(name, "set_attr" | "rm_attr" | "set_name") { continue; }
                            let a = op["a"].as_array().cloned().unwrap_or_default();
                            let arg = |i: usize| -> Vec<u32> { a.get(i).and_then(|x| x.as_str()).map(crate::driver::s2cp).unwrap_or_default() };
                            edits.push(json!({"op": name, "n": arg(0), "v": arg(1), "ok": op["r"] == "ok"}));
                        }
                        let post = if edits.is_empty() { json!({"name": [], "nameraw": [], "attrs": []}) } else {
                            json!({"name": e["post"]["name"], "nameraw": e["post"]["nameraw"], "attrs": e["post"]["attrs"]}) };
                        toks.push(json!({"k":"st","s":s,"e":en,"name":e["name"],"nameraw":e["nameraw"],"attrs":e["attrs"],
                            "ns":e["ns"],"sc":e["sc"],"chc":e["chc"],"q":e["q"],"edits":edits,"post":post}))
                    }
                    "et" => toks.push(json!({"k":"et","s":s,"e":en,"name":e["name"],"nameraw":e["nameraw"]})),
                    "cm" => toks.push(json!({"k":"cm","s":s,"e":en,"text":e["text"]})),
                    "dt" => toks.push(json!({"k":"dt","s":s,"e":en})),
                    "tx" => toks.push(json!({"k":"tx","s":s,"e":en,"text":e["text"],"tt":e["tt"],"last":e["last"]})),
                    _ => {}
                }
                if toks.len() > ntoks { let last = toks.len() - 1; toks[last]["s2"] = l2[0].clone(); toks[last]["e2"] = l2[1].clone(); }
            }
            _ => {}
        }
        // the same token delivered to a second handler is the same observation
        let n = toks.len();
        if n >= 2 && toks[n - 1]["k"] == "tx" && toks[n - 1] == toks[n - 2] {
            toks.pop();
        }
    }
    (toks, res)
}

pub fn record(id: &str, clauses: &[&str], cfg: &Value, input: &[u8], tl: &[Value], fb: &str) -> Value {
    let (toks, res) = project(tl);
    let enc = cfg.get("enc").and_then(|x| x.as_str()).unwrap_or("utf-8");
    json!({"id": id, "clauses": clauses, "input": input, "utf8": enc == "utf-8",
           "strict": cfg.get("strict").and_then(|x| x.as_bool()).unwrap_or(true), "fb": fb, "res": res, "toks": toks})
}

const ATTR_FORMS: &[&str] = &["b", "b=c", "b='c d'", "b=\"c>d\"", "B=C", "b=", "b =  c", "b\n=\n'c'", "b=\"\"", "=b", "b==c", "b=c'd", "\"b\"=c", "b=<",
    "b=c/", "b/", "/", "b=a b=z", "B=1 b=2", "x=é", "é=1", "b=&amp;", "data-x-y=1", "b='a\"b'", "b=\"a'b\"", "b=\t", "b c d", "xlink:href=u", "b=c>d"];
const TAG_NAMES: &[&str] = &["a", "A", "dIv", "br", "img", "input", "path", "circle", "mi", "title", "font", "x-y", "verylongtagname12", "h1", "é", "a1"];

pub fn tag_grammar(rng: &mut Rng, exhaustive_two: bool) -> Vec<Vec<u8>> {
    let mut v = Vec::new();
    for name in TAG_NAMES {
        for (i, a) in ATTR_FORMS.iter().enumerate() {
            for close in [">", "/>", " >", " / >"] {
                v.push(format!("<{name} {a}{close}").into_bytes());
            }
            if exhaustive_two || i % 3 == 0 {
                for b in ATTR_FORMS.iter().step_by(if exhaustive_two { 1 } else { 5 }) {
                    v.push(format!("<{name} {a} {b}>").into_bytes());
                }
            }
        }
        v.push(format!("<{name}>").into_bytes());
        v.push(format!("<{name}/>").into_bytes());
        v.push(format!("<{name}\t>").into_bytes());
    }
    for _ in 0..(if exhaustive_two { 2000 } else { 300 }) {
        let name = *rng.pick(TAG_NAMES);
        let k = rng.below(4);
        let mut s = format!("<{name}");
        for _ in 0..k {
            s.push_str(*rng.pick(&[" ", "\n", "/", " / "]));
            s.push_str(*rng.pick(ATTR_FORMS));
        }
        s.push_str(*rng.pick(&[">", "/>", " >"]));
        v.push(s.into_bytes());
    }
    v
}

fn run_variants(sh: &mut Shards, prefix: &str, clauses: &[&str], cfg: &Value, input: &[u8], cutsets: &[Vec<usize>], fb: &str, n: &mut usize) {
    for cuts in cutsets {
        let tl = driver::run(cfg, input, cuts, &RunOpts::default());
        *n += 1;
        let rec = record(&format!("{prefix}-{}", *n), clauses, cfg, input, &tl, fb);
        // identical observations of the same input have the same verdict
        let key = format!("{}|{}|{}|{}", rec["input"], rec["toks"], rec["res"], rec["fb"]);
        let src = json!({"id": rec["id"], "cfg": cfg, "input": input, "cuts": cuts, "fb": fb});
        sh.push(&rec, &src, Some(&key), !input.is_empty());
    }
}

pub fn job_c14(out_dir: &str, tier: &str, seed: u64) {
    let quick = tier == "quick";
    let mut rng = Rng::new(seed ^ 0xC14);
    let mut sh = Shards::new(out_dir, "c14", 700_000);
    let mut n = 0usize;
    let all = capture_all(false);
    let all_mut = capture_all(true);
    // (1) every fragment alone and in pairs over a rotating pool, every 1-cut (+2-cuts when short)
    let mut inputs: Vec<Vec<u8>> = (0..gen::FRAGS.len()).map(|i| gen::frag_bytes(i).to_vec()).collect();
    inputs.extend(gen::framed_inputs());
    let mut pool: Vec<usize> = (0..gen::FRAGS.len()).collect();
    for i in (1..pool.len()).rev() { pool.swap(i, rng.below(i + 1)); }
    pool.truncate(if quick { 22 } else { 70 });
    for &a in &pool { for &b in &pool { let mut x = gen::frag_bytes(a).to_vec(); x.extend_from_slice(gen::frag_bytes(b)); inputs.push(x); } }
    for input in &inputs {
        let cutsets = gen::cut_sets(input.len(), &mut rng, if quick { 8 } else { 20 }, 1);
        let cfg = gen::merge(&all, &json!({"strict": false}));
        run_variants(&mut sh, "c14", &["C14"], &cfg, input, &cutsets, "sim", &mut n);
    }
    // (2) seeded documents: capture-all, capture-all with earlier rewriting, sparse configurations
    let nrand = if quick { 700 } else { 20000 };
    for i in 0..nrand {
        let input = match i % 4 { 0 => gen::random_doc(&mut rng, 14), 1 => gen::random_input(&mut rng, 3, 9), 2 => gen::foreign_doc(&mut rng, 10), _ => {
            let mut v = gen::random_doc(&mut rng, 8); v.extend_from_slice("é日本😀".as_bytes()); v.extend_from_slice(&gen::random_input(&mut rng, 1, 4)); v } };
        let cutsets = if input.len() <= 70 { gen::cut_sets(input.len(), &mut rng, 0, 2) } else { gen::light_cut_sets(input.len(), &mut rng, 3) };
        let enc = if i % 5 == 4 { *rng.pick(&["windows-1252", "shift_jis", "euc-kr", "gb18030", "big5"]) } else { "utf-8" };
        let strict = rng.chance(1, 3);
        run_variants(&mut sh, "c14", &["C14"], &gen::merge(&all, &json!({"strict": strict, "enc": enc})), &input, &cutsets, "sim", &mut n);
        run_variants(&mut sh, "c14", &["C14"], &gen::merge(&all_mut, &json!({"strict": strict, "enc": enc})), &input, &cutsets, "sim", &mut n);
        let sp = sparse();
        run_variants(&mut sh, "c14", &["C14"], &gen::merge(&sp[i % sp.len()], &json!({"strict": strict, "enc": enc})), &input, &cutsets, "none", &mut n);
    }
    // (2b) transition coverage from the specification (spec/TokCover.tla): every control state x every word, cut at the
    // end of the witness and after the word
    let cover = gen::cover_inputs(quick, false);
    let ncover = cover.len();
    for (input, c1, c2) in &cover {
        let mut cutsets: Vec<Vec<usize>> = vec![vec![]];
        if *c1 > 0 && *c1 < input.len() { cutsets.push(vec![*c1]); }
        if *c2 < input.len() && c2 != c1 { cutsets.push(vec![*c2]); }
        run_variants(&mut sh, "c14", &["C14"], &gen::merge(&all, &json!({"strict": false})), input, &cutsets, "sim", &mut n);
    }
    // (2c) attribute names / values whose decoded length differs from their byte length (legacy encodings, malformed
    // UTF-8): every reported range is in bytes of the source
    for (enc, doc) in [("windows-1252", &b"<p>x</p><a title=\"caf\xe9 cr\xe8me\" x=\xe9 data-\xe9=v>t</a><img alt='\xfc\xfc'>"[..]),
                       ("shift_jis", &b"<a title=\"\x93\xfa\x96\x7b\" x=\x83\x5c y='\xb1'>t</a><b k=\x93\xfa>"[..]),
                       ("gbk", &b"<a t=\"\xd6\xd0\xce\xc4\" \xd6\xd0=1>t</a>"[..]),
                       ("utf-8", &b"<a t=\"\xff\xfe\" u=\xc3 v='ok\xe2\x82'>t</a><i w=\"\xe2\x82\xac\xe2\x82\xac\">"[..]),
                       ("utf-8", "<a title=\"caf\u{e9} \u{65e5}\u{672c} \u{1F600}\" \u{e9}=1>t</a>".as_bytes()),
                       // text nodes that end in a truncated multi-byte character (alone in the node / after text / at the end of input)
                       ("utf-8", &b"<i>\xF0\x9F</i><p>ab\xE2\x82</p><b>\xC3</b>t\xE2"[..]),
                       ("shift_jis", &b"<i>\x93</i><p>ab\x93</p>t\x83"[..])] {
        let mut cutsets: Vec<Vec<usize>> = vec![vec![], (1..doc.len()).collect()];
        for c in 1..doc.len() { cutsets.push(vec![c]); }
        run_variants(&mut sh, "c14", &["C14"], &gen::merge(&all, &json!({"strict": false, "enc": enc})), doc, &cutsets, "sim", &mut n);
    }
    // (3) long text so that the text decoder's internal buffer (1 KiB) is crossed
    for i in 0..(if quick { 12 } else { 200 }) {
        let mut input = b"<p>".to_vec();
        let len = 900 + rng.below(2400);
        for j in 0..len { input.push(if (j + i) % 97 == 96 { b' ' } else { b'a' + ((j * 7 + i) % 26) as u8 }); }
        if i % 2 == 0 { input.extend_from_slice("é".as_bytes()); } else { input.push(0xE9); }
        input.extend_from_slice(b"tail</p><a href=x>y</a>");
        let enc = if i % 2 == 0 { "utf-8" } else { "windows-1252" };
        let cutsets = vec![vec![], vec![1024], vec![3, 1030], vec![rng.below(len), len + 4]];
        run_variants(&mut sh, "c14", &["C14"], &gen::merge(&all, &json!({"strict": false, "enc": enc})), &input, &cutsets, "sim", &mut n);
    }
    sh.finish(json!({"rule": "capture-all observation (doctype, comments, text, every element and its end tag, attribute name/value ranges) of: every fragment, all ordered pairs over a seed-rotated pool, seeded documents (also with earlier rewriting, sparse handler sets that switch scan/lex modes, legacy encodings), text longer than the decoder buffer; schedules: every 1-cut, 2-cuts (short), byte-wise, empty writes, random k-cuts; plus transition coverage generated from the specification: spec/TokCover.tla yields a shortest witness per control state of the tokenizer table, each extended by every word of its vocabulary and a state-discriminating suffix, cut at the end of the witness and after the word. Distinct = distinct (input, observation); non-trivial = non-empty input.", "spec_transition_inputs": ncover}));
}

pub fn job_c16(out_dir: &str, tier: &str, seed: u64) {
    let quick = tier == "quick";
    let mut rng = Rng::new(seed ^ 0xC16);
    let mut sh = Shards::new(out_dir, "c16", 1_500_000);
    let mut n = 0usize;
    let edit_scripts = [json!([]),
        json!([{"op":"set_attr","a":["b","NEW"]},{"op":"set_attr","a":["zz","1"]}]),
        json!([{"op":"rm_attr","a":["B"]},{"op":"set_attr","a":["X","y"]},{"op":"set_name","a":["Hit"]}]),
        json!([{"op":"set_attr","a":["data-x-y","&"]},{"op":"rm_attr","a":["nope"]},{"op":"rm_attr","a":["x"]},{"op":"set_attr","a":["b",""]}]),
        json!([{"op":"set_name","a":["x-y"]},{"op":"set_attr","a":["B","2"]},{"op":"rm_attr","a":["b"]},{"op":"set_attr","a":["b","3"]}])];
    let variants: Vec<Value> = (0..10).map(|i| capture_all_c16(i % 2 == 1, &edit_scripts[i / 2])).collect();
    let tags = tag_grammar(&mut rng, !quick);
    // (nested roots of the same namespace: the inner end tag must not end the outer one)
    let contexts: [(&str, &str); 9] = [("", ""), ("<svg>", "</svg>"), ("<math>", "</math>"), ("<svg><desc>", "</desc></svg>"), ("<div>x", "</div>"),
        ("<svg><svg></svg>", "<circle/></svg>"), ("<math><mrow><math></math>", "<mspace/></mrow></math>"), ("<svg><g><svg><svg></svg></svg>", "</g></svg>"),
        ("<math><mi><math></math></mi>", "</math>")];
    for (ti, tag) in tags.iter().enumerate() {
        for (ci, (pre, post)) in contexts.iter().enumerate() {
            if quick && (ti + ci) % 5 >= 2 && ci != 0 { continue; }
            let mut input = pre.as_bytes().to_vec();
            let start = input.len();
            input.extend_from_slice(tag);
            let end = input.len();
            input.extend_from_slice(post.as_bytes());
            // every cut inside the tag
            let mut cutsets: Vec<Vec<usize>> = vec![vec![]];
            let step = if quick && (end - start) > 12 { 2 } else { 1 };
            let mut c = start + 1 + (ti % step);
            while c < end { cutsets.push(vec![c]); c += step; }
            cutsets.push((1..input.len()).collect());
            let enc = if ti % 7 == 6 { *rng.pick(&["windows-1252", "shift_jis", "koi8-r"]) } else { "utf-8" };
            let all = &variants[(ti + ci * 3) % variants.len()];
            run_variants(&mut sh, "c16", &["C16"], &gen::merge(all, &json!({"strict": false, "enc": enc})), &input, &cutsets, "sim", &mut n);
        }
    }
    // start tags inside seeded documents
    for _ in 0..(if quick { 400 } else { 10000 }) {
        let input = if rng.chance(1, 2) { gen::random_doc(&mut rng, 14) } else { gen::foreign_doc(&mut rng, 10) };
        let cutsets = gen::light_cut_sets(input.len(), &mut rng, 2);
        let all = &variants[rng.below(variants.len())];
        run_variants(&mut sh, "c16", &["C16"], &gen::merge(all, &json!({"strict": false})), &input, &cutsets, "sim", &mut n);
    }
    sh.finish(json!({"rule": "start tags from an attribute-syntax grammar (16 names x 29 attribute forms x 4 tag ends, pairs of forms, seeded 0-3 attribute combinations) in HTML, SVG, MathML, SVG-integration-point and nested HTML context x every cut inside the tag + byte-wise x encodings; plus seeded documents. Every attribute name is looked up as written / upper / lower case and an absent name. Distinct = distinct (input, observation).",
        "tag_grammar_size": tags.len()}));
}

pub fn replay(job: &str, src: &Value, out_dir: &str) {
    let input: Vec<u8> = src["input"].as_array().map(|a| a.iter().map(|x| x.as_u64().unwrap() as u8).collect()).unwrap_or_default();
    let cuts: Vec<usize> = src["cuts"].as_array().map(|a| a.iter().map(|x| x.as_u64().unwrap() as usize).collect()).unwrap_or_default();
    let fb = src.get("fb").and_then(|x| x.as_str()).unwrap_or("sim");
    let mut sh = Shards::new(out_dir, job, 50_000_000);
    let tl = driver::run(&src["cfg"], &input, &cuts, &RunOpts::default());
    let clause = match job { "c14" => "C14", "c16" => "C16", _ => "C03" };
    let rec = record("replay", &[clause], &src["cfg"], &input, &tl, fb);
    sh.push(&rec, src, None, true);
    sh.finish(json!({}));
}
