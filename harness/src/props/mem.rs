//! C10 job: limit sweeps over inputs built to grow each buffer; judged by spec/TraceMem.tla.
use crate::driver::{self, RunOpts};
use crate::gen::Rng;
use crate::out::Shards;
use crate::props::stream::sink_bytes;
use serde_json::{json, Value};

struct Case { name: &'static str, cfg: Value, input: Vec<u8>, sel: bool, opens: &'static [u8] }

fn cases(quick: bool) -> Vec<Case> {
    let obs = json!([]);
    let n = if quick { 120 } else { 2000 };
    let k = if quick { 24 } else { 300 };
    let rep = |s: &[u8], n: usize| s.repeat(n);
    let mut v = Vec::new();
    let mut c1 = b"<p>x</p><!--".to_vec(); c1.extend(rep(b"a", n));
    v.push(Case { name: "unterminated-comment/comment-handler", cfg: json!({"doc":[{"comments":obs}]}), input: c1.clone(), sel: false, opens: b"" });
    v.push(Case { name: "unterminated-comment/no-handlers", cfg: json!({}), input: c1, sel: false, opens: b"" });
    let mut c2 = b"hello<a b=\"".to_vec(); c2.extend(rep(b"v", n));
    v.push(Case { name: "unterminated-attr-value/element-handler", cfg: json!({"elem":[{"sel":"a","element":obs}]}), input: c2.clone(), sel: true, opens: b"" });
    v.push(Case { name: "unterminated-attr-value/doc-handlers", cfg: json!({"doc":[{"comments":obs,"doctype":obs}]}), input: c2, sel: false, opens: b"" });
    let mut c3 = b"t<".to_vec(); c3.extend(rep(b"x", n));
    v.push(Case { name: "long-tag-name/no-handlers", cfg: json!({}), input: c3.clone(), sel: false, opens: b"" });
    v.push(Case { name: "long-tag-name/nomatch-selector", cfg: json!({"elem":[{"sel":"nomatch","element":obs}]}), input: c3, sel: true, opens: b"" });
    v.push(Case { name: "deep-nesting/star", cfg: json!({"elem":[{"sel":"*","element":obs}]}), input: rep(b"<div>", k), sel: true, opens: b"<div>" });
    v.push(Case { name: "deep-nesting/nomatch", cfg: json!({"elem":[{"sel":"x y","element":obs}]}), input: rep(b"<div>", k), sel: true, opens: b"<div>" });
    let mut c5 = rep(b"<div>", k / 3); c5.extend_from_slice(b"<img alt=\""); c5.extend(rep(b"x", n));
    v.push(Case { name: "nesting+unterminated-attr/star", cfg: json!({"elem":[{"sel":"*","element":obs}]}), input: c5, sel: true, opens: b"<div>" });
    // enough open elements for the stack to have grown past its first capacities, then a buffered token: the two
    // consumers share one allowance (monotonicity in M is only visible when both grow)
    for depth in [17usize, 20, 33] {
        let mut c = rep(b"<div>", depth); c.extend_from_slice(b"<img alt=\""); c.extend(rep(b"x", if quick { 320 } else { 1500 }));
        v.push(Case { name: "deep-nesting+unterminated-attr/star", cfg: json!({"elem":[{"sel":"*","element":obs}]}), input: c, sel: true, opens: b"<div>" });
    }
    // a long token that is consumed at once (the buffer has grown well past 4 KiB and is then almost empty), directly
    // followed by an unterminated one that keeps growing
    let mut c9 = b"<a ".to_vec(); c9.extend(rep(b"x=1 ", 1300)); c9.extend_from_slice(b"><img alt=\""); c9.extend(rep(b"y", if quick { 2500 } else { 9000 }));
    v.push(Case { name: "long-consumed-then-unterminated-attr/element-handler", cfg: json!({"elem":[{"sel":"img","element":obs}]}), input: c9.clone(), sel: true, opens: b"" });
    v.push(Case { name: "long-consumed-then-unterminated-attr/doc-handlers", cfg: json!({"doc":[{"comments":obs}]}), input: c9, sel: false, opens: b"" });
    let mut c6 = rep(b"<div>", k / 2); c6.extend_from_slice(b"<!--"); c6.extend(rep(b"c", n / 2));
    v.push(Case { name: "nesting+unterminated-comment/star+comments", cfg: json!({"elem":[{"sel":"div","element":obs,"comments":obs}]}), input: c6, sel: true, opens: b"<div>" });
    let mut c7 = Vec::new(); for i in 0..(n / 4) { c7.extend_from_slice(format!("<b>t{i}</b>").as_bytes()); }
    v.push(Case { name: "many-small-tokens/star", cfg: json!({"elem":[{"sel":"*","element":obs}]}), input: c7, sel: true, opens: b"" });
    let mut c8 = b"<title>".to_vec(); c8.extend(rep(b"t", n)); c8.extend_from_slice(b"</titl");
    v.push(Case { name: "rcdata-then-partial-end-tag/no-handlers", cfg: json!({}), input: c8, sel: false, opens: b"" });
    v
}

fn count_opens(prefix: &[u8], opens: &[u8]) -> usize {
    if opens.is_empty() { return 0; }
    prefix.windows(opens.len()).filter(|w| *w == opens).count()
}

fn one_run(cfg: &Value, input: &[u8], cuts: &[usize], opens: &[u8]) -> Value {
    let tl = driver::run(cfg, input, cuts, &RunOpts::default());
    let mut calls = Vec::new();
    let mut w = 0usize;
    let mut res = "ok".to_string();
    for e in &tl {
        if e["e"] == "call" && e["op"] == "write" { w += e["b"].as_array().unwrap().len(); }
        if e["e"] == "ret" && e.get("sl").is_some() && e.get("usage").is_some() {
            let r = e["res"].as_str().unwrap();
            calls.push(json!({"w": w, "e": e["sl"], "depth": count_opens(&input[..w], opens), "usage": e["usage"], "res": r}));
            if r != "ok" { res = r.to_string(); }
        } else if e["e"] == "ret" && e.get("sl").is_some() {
            // end(): no usage reading after the rewriter is consumed
            let r = e["res"].as_str().unwrap();
            if r != "ok" { res = r.to_string(); }
        }
    }
    let max = cfg["mem"]["max"].as_i64().unwrap_or(-1);
    json!({"max": max, "res": res, "out": sink_bytes(&tl), "calls": calls})
}

pub fn job_c10(out_dir: &str, tier: &str, seed: u64) {
    let quick = tier == "quick";
    let mut rng = Rng::new(seed ^ 0xC10);
    let mut sh = Shards::new(out_dir, "c10", 700_000);
    let (itemsize, _mincap) = lol_html::HtmlRewriter::<'static, fn(&[u8])>::verif_stack_item_layout();
    let mut n = 0usize;
    let mut runs_total = 0usize;
    for case in cases(quick) {
        for &prealloc in &[0usize, 16, 1024] {
            for &chunk in &[1usize, 7, 10, 64, 100000] {
                if quick && chunk == 1 && case.input.len() > 200 && prealloc != 0 { continue; }
                // (long inputs: thousands of calls per run times a hundred limits is more than the judge needs)
                if case.input.len() > 3000 && chunk < 64 { continue; }
                let cuts: Vec<usize> = (1..).map(|i| i * chunk).take_while(|&c| c < case.input.len()).collect();
                let base = crate::gen::merge(&case.cfg, &json!({"strict": false}));
                // the need: the smallest limit under which the whole run succeeds, found black-box by bisection
                // (not read from the accounting, which is what is being checked)
                let succeeds = |mx: usize| -> bool {
                    let cfg = crate::gen::merge(&base, &json!({"mem": {"max": mx, "prealloc": prealloc, "graceful": false}}));
                    one_run(&cfg, &case.input, &cuts, case.opens)["res"] == "ok"
                };
                let mut hi = prealloc.max(16);
                while !succeeds(hi) && hi < (1 << 26) { hi *= 2; }
                let mut lo = prealloc;
                while lo < hi { let mid = (lo + hi) / 2; if succeeds(mid) { hi = mid; } else { lo = mid + 1; } }
                let need = hi;
                let mut ms: Vec<usize> = Vec::new();
                let mut m = prealloc.max(1);
                while m < need { ms.push(m); m = m * 3 / 2 + 1; }
                for d in 0..=16usize { if need + 8 >= d && need + 8 - d >= prealloc { ms.push(need + 8 - d); } }
                ms.push(prealloc);
                ms.push(need * 2 + 1000);
                // above the need: an even ladder up to twice the need (a run that succeeds under M must succeed under every larger limit)
                let step = (need / 48).max(8);
                let mut m2 = need + step;
                while m2 <= need * 2 + step { ms.push(m2); m2 += step; }
                ms.sort_unstable(); ms.dedup();
                // a few limits twice (determinism)
                let dup: Vec<usize> = (0..3).map(|_| *rng.pick(&ms)).collect();
                ms.extend(dup); ms.sort_unstable();
                let mut runs = Vec::new();
                for &mx in &ms {
                    let cfg = crate::gen::merge(&base, &json!({"mem": {"max": mx, "prealloc": prealloc, "graceful": false}}));
                    runs.push(one_run(&cfg, &case.input, &cuts, case.opens));
                    runs_total += 1;
                }
                n += 1;
                let rec = json!({"id": format!("c10-{n}"), "itemsize": itemsize, "sel": case.sel, "passthru": true, "runs": runs});
                let src = json!({"id": rec["id"], "case": case.name, "cfg": base, "input": case.input, "prealloc": prealloc, "chunk": chunk, "limits": ms});
                sh.evaluations += ms.len() - 1;
                sh.push(&rec, &src, None, true);
            }
        }
    }
    // bookkeeping that the limiter does not see: live heap of the process (counting allocator) right after the rewriter
    // was built versus after the last write, in runs that record nothing; the streams are long, nothing stays open or
    // buffered, so whatever grows with the length of the stream is unaccounted state
    let nel = if quick { 40_000 } else { 400_000 };
    let mut streams: Vec<(&str, Vec<u8>)> = Vec::new();
    streams.push(("distinct-unhashable-names", { let mut v = Vec::new(); for i in 0..nel { v.extend_from_slice(format!("<item-a{i}></item-a{i}>").as_bytes()); } v }));
    streams.push(("distinct-long-names", { let mut v = Vec::new(); for i in 0..nel { v.extend_from_slice(format!("<verylongelementname{i}>t</verylongelementname{i}>").as_bytes()); } v }));
    streams.push(("distinct-hashable-names", { let mut v = Vec::new(); for i in 0..nel { let n: String = format!("{:x}", i).chars().map(|c| if c.is_ascii_digit() { (b'g' + (c as u8 - b'0')) as char } else { c }).collect(); v.extend_from_slice(format!("<{n}></{n}>").as_bytes()); } v }));
    streams.push(("same-name-siblings", b"<li>x</li>".repeat(nel)));
    streams.push(("nest-and-unwind", { let mut v = Vec::new(); for _ in 0..(nel / 40) { v.extend(b"<div>".repeat(20)); v.extend(b"</div>".repeat(20)); } v }));
    streams.push(("distinct-attribute-names", { let mut v = Vec::new(); for i in 0..nel { v.extend_from_slice(format!("<a data-k{i}=v{i}></a>").as_bytes()); } v }));
    streams.push(("stray-end-tags", { let mut v = Vec::new(); for i in 0..nel { v.extend_from_slice(format!("</x{i}>").as_bytes()); } v }));
    streams.push(("comments-and-text", { let mut v = Vec::new(); for i in 0..nel { v.extend_from_slice(format!("t{i}<!--c{i}-->").as_bytes()); } v }));
    for (name, input) in &streams {
        for (ci, hs) in [json!({"elem":[{"sel":"*","element":[]}]}), json!({"elem":[{"sel":"nomatch > x:nth-of-type(2)","element":[]}]}),
                         json!({"elem":[{"sel":"div li, a[data-k1]","element":[],"text":[],"comments":[]}]}), json!({})].iter().enumerate() {
            let max = 16384usize;
            let cfg = crate::gen::merge(hs, &json!({"strict": false, "mem": {"max": max, "prealloc": 1024, "graceful": false}}));
            let cuts: Vec<usize> = (1..).map(|i| i * 4096).take_while(|&c| c < input.len()).collect();
            let (res, growth) = driver::run_bare_heap(&cfg, input, &cuts);
            n += 1;
            let distinct = if name.starts_with("distinct-") && !name.contains("attribute") { nel } else { 1 };
            let rec = json!({"id": format!("c10-{n}"), "heap": {"max": max, "growth": growth.max(0), "res": res, "len": input.len(),
                "names": distinct, "nthoftype": cfg.to_string().contains("nth-of-type")}});
            sh.push(&rec, &json!({"id": rec["id"], "case": name, "cfg_index": ci, "cfg": cfg, "len": input.len()}), None, true);
            eprintln!("heap {name} cfg{ci} res={res} growth={growth}");
        }
    }
    sh.finish(json!({"rule": "18 input families built to grow each buffer (unterminated comment / attribute value / tag name under capturing and non-capturing handlers, deep nesting with matching and non-matching selectors, nesting + unterminated token, many small tokens, RCDATA + partial end tag) x preallocation {0, 16, 1024} x chunk sizes {1, 7, 10, 64, whole}; each is a sweep over every limit in [need-8, need+8] plus a geometric ladder from the preallocation up and an even ladder of 48 limits from the need to twice the need, some limits twice. evaluations = runs; a record is one sweep.",
        "runs": runs_total, "stack_item_size": itemsize}));
}
