//! C18 job: (1) repeated / Send / concurrent / migrated runs versus the sequential run (relation decided by
//! spec/TraceRel.tla, clause C18 = identical); (2) schedules of failing / succeeding / take_last_error
//! calls enumerated by TLC (MC_Threads) executed on real threads through the real extern "C" symbols and
//! validated event by event against spec/ThreadsErr.tla.
use crate::driver::{self, RunOpts};
use crate::gen::{self, Rng};
use crate::out::Shards;
use crate::props::rel::observation;
use serde_json::{json, Value};
use std::sync::mpsc;

#[repr(C)]
struct RawStr { data: *const libc::c_char, len: usize }

fn take_last_error() -> Option<String> {
    unsafe {
        let s = lolhtml::errors::lol_html_take_last_error();
        let raw: RawStr = std::mem::transmute_copy(&s);
        let out = if raw.data.is_null() { None } else { Some(String::from_utf8_lossy(std::slice::from_raw_parts(raw.data as *const u8, raw.len)).into_owned()) };
        lolhtml::string::lol_html_str_free(s);
        out
    }
}

fn do_op(op: &str) -> String {
    unsafe {
        match op {
            "failA" => { let s = b"div >"; let p = lolhtml::selector::lol_html_selector_parse(s.as_ptr() as *const libc::c_char, s.len()); if p.is_null() { "-1".into() } else { lolhtml::selector::lol_html_selector_free(p); "0".into() } }
            "failB" => { let s = [b'd', 0xff, 0xfe]; let p = lolhtml::selector::lol_html_selector_parse(s.as_ptr() as *const libc::c_char, s.len()); if p.is_null() { "-1".into() } else { lolhtml::selector::lol_html_selector_free(p); "0".into() } }
            "ok" => { let s = b"div"; let p = lolhtml::selector::lol_html_selector_parse(s.as_ptr() as *const libc::c_char, s.len()); if p.is_null() { "-1".into() } else { lolhtml::selector::lol_html_selector_free(p); "0".into() } }
            "take" => match take_last_error() {
                None => "null".into(),
                Some(m) if m.contains("ombinator") => "A".into(),
                Some(m) if m.to_ascii_lowercase().contains("utf") => "B".into(),
                Some(m) => format!("other:{m}"),
            },
            _ => "?".into(),
        }
    }
}

fn run_schedule(sched: &[Value], nthreads: usize) -> Vec<Value> {
    let mut txs = Vec::new();
    let (rtx, rrx) = mpsc::channel::<String>();
    let mut handles = Vec::new();
    for _ in 0..nthreads {
        let (tx, rx) = mpsc::channel::<String>();
        let rtx = rtx.clone();
        handles.push(std::thread::spawn(move || { while let Ok(op) = rx.recv() { if op == "quit" { break; } rtx.send(do_op(&op)).unwrap(); } }));
        txs.push(tx);
    }
    let mut evs = Vec::new();
    for st in sched {
        let t = st["t"].as_u64().unwrap() as usize;
        let op = st["op"].as_str().unwrap();
        txs[t - 1].send(op.to_string()).unwrap();
        let r = rrx.recv().unwrap();
        evs.push(json!({"t": t, "op": op, "r": r}));
    }
    for tx in &txs { let _ = tx.send("quit".into()); }
    for h in handles { let _ = h.join(); }
    evs
}

pub fn job_c18_sched(out_dir: &str, tier: &str, seed: u64) {
    let quick = tier == "quick";
    let mut rng = Rng::new(seed ^ 0xC18);
    let mut sh = Shards::new(out_dir, "c18s", 400_000);
    let mut n = 0usize;
    // schedules printed by TLC (MC_Threads): one JSON array per line
    let path = std::env::var("VERIF_REPLAY_FILE").unwrap_or_default();
    let mut from_tlc = 0usize;
    if let Ok(text) = std::fs::read_to_string(&path) {
        for line in text.lines() {
            if let Ok(Value::Array(s)) = serde_json::from_str::<Value>(line) {
                n += 1; from_tlc += 1;
                let evs = run_schedule(&s, 2);
                sh.push(&json!({"id": format!("c18s-{n}"), "evs": evs}), &json!({"id": format!("c18s-{n}"), "schedule": s}), None, true);
            }
        }
    }
    // seeded longer schedules on more threads
    for _ in 0..(if quick { 300 } else { 10000 }) {
        let nt = 2 + rng.below(7);
        let len = 6 + rng.below(30);
        let s: Vec<Value> = (0..len).map(|_| json!({"t": 1 + rng.below(nt), "op": *rng.pick(&["failA", "failB", "ok", "take", "take"])})).collect();
        n += 1;
        let evs = run_schedule(&s, nt);
        sh.push(&json!({"id": format!("c18s-{n}"), "evs": evs}), &json!({"id": format!("c18s-{n}"), "schedule": s}), None, true);
    }
    sh.finish(json!({"rule": "every schedule of MC_Threads (all interleavings of MaxLen operations {failing call A, failing call B, succeeding call, take_last_error} of 2 threads, printed by TLC) executed on real threads through the extern C symbols with a hand-over per step, plus seeded schedules of 6-35 steps on 2-8 threads.",
        "schedules_from_tlc": from_tlc}));
}

pub fn job_c18(out_dir: &str, tier: &str, seed: u64) {
    let quick = tier == "quick";
    let mut rng = Rng::new(seed ^ 0x18C);
    let mut sh = Shards::new(out_dir, "c18", 1_000_000);
    let mut sets = gen::observer_sets();
    sets.extend(crate::props::rel::invariant_mutating_sets());
    let njobs = if quick { 900 } else { 6000 };
    let all = |_: &str| true;
    // job list
    let mut jobs: Vec<(Value, Vec<u8>, Vec<usize>)> = Vec::new();
    for i in 0..njobs {
        let input = match i % 4 { 0 => gen::random_doc(&mut rng, 16), 1 => gen::random_input(&mut rng, 3, 10), 2 => gen::foreign_doc(&mut rng, 10), _ => gen::random_bytes(&mut rng, 50) };
        let (_, hs) = &sets[rng.below(sets.len())];
        let mut cfg = gen::merge(hs, &json!({"strict": rng.chance(1, 2), "enc": if rng.chance(3, 4) { "utf-8" } else { *rng.pick(gen::ENCODINGS_QUICK) }}));
        if rng.chance(1, 5) { cfg = gen::merge(&cfg, &json!({"mem": {"max": 16 + rng.below(300), "prealloc": 16}})); }
        if rng.chance(1, 6) { cfg = gen::merge(&cfg, &json!({"fail_at": 1 + rng.below(5)})); }
        let k = rng.below(5);
        let mut cuts: Vec<usize> = (0..k).map(|_| rng.below(input.len() + 1)).collect(); cuts.sort_unstable();
        jobs.push((cfg, input, cuts));
    }
    // sequential reference (Local handler types)
    let seq: Vec<Value> = jobs.iter().map(|(c, i, k)| observation("sequential", &driver::run(c, i, k, &RunOpts::default()), &all)).collect();
    // concurrent: N threads, each runs a slice of the jobs with Send handlers and yields
    let nthreads = if quick { 8 } else { 16 };
    let mut results: Vec<Vec<(usize, Value)>> = Vec::new();
    std::thread::scope(|s| {
        let mut hs = Vec::new();
        for t in 0..nthreads {
            let jobs = &jobs;
            hs.push(s.spawn(move || {
                crate::driver::silence_panics();
                let mut out = Vec::new();
                // every job is run by two different threads
                for (ji, (c, i, k)) in jobs.iter().enumerate() {
                    if ji % nthreads == t || (ji + 3) % nthreads == t {
                        let tl = driver::run(c, i, k, &RunOpts { send: true, yields: (ji as u32 + 1) * 7 + t as u32, ..RunOpts::default() });
                        out.push((ji, observation(&format!("thread-{t}"), &tl, &|_: &str| true)));
                    }
                }
                out
            }));
        }
        for h in hs { results.push(h.join().unwrap()); }
    });
    let mut per_job: Vec<Vec<Value>> = vec![Vec::new(); jobs.len()];
    for r in results { for (ji, o) in r { per_job[ji].push(o); } }
    let mut n = 0usize;
    for (ji, (cfg, input, cuts)) in jobs.iter().enumerate() {
        let mut obs = vec![seq[ji].clone()];
        obs.push(observation("repeat", &driver::run(cfg, input, cuts, &RunOpts::default()), &all));
        obs.push(observation("send-sequential", &driver::run(cfg, input, cuts, &RunOpts { send: true, ..RunOpts::default() }), &all));
        obs.push(observation("migrated", &driver::run_migrating(cfg, input, cuts), &all));
        obs.extend(per_job[ji].iter().cloned());
        n += 1;
        sh.evaluations += obs.len() - 1;
        let rec = json!({"id": format!("c18-{n}"), "clauses": ["C18"], "hs": [], "obs": obs});
        sh.push(&rec, &json!({"id": rec["id"], "cfg": cfg, "input": input, "cuts": cuts}), None, true);
    }
    // history on one thread: a rewrite must not depend on which rewriters lived (and died) on the thread before;
    // large tokens make the parsing buffer grow well beyond its preallocation
    for (hi, (alen, blen, blimit, bpre)) in [(3000usize, 2500usize, 2048usize, 1024usize), (1500, 1200, 1100, 0), (20000, 9000, 8192, 1024), (5000, 2500, 3000, 16), (70000, 3000, 2048, 1024), (3000, 900, 1024, 512)].iter().enumerate() {
        let mut a_in = b"<a ".to_vec(); a_in.extend(vec![b'x'; *alen]); a_in.extend_from_slice(b">t</a>");
        let mut b_in = b"<p>q</p><b ".to_vec(); b_in.extend(vec![b'y'; *blen]); b_in.extend_from_slice(b">u</b>");
        let a_cfg = json!({"strict": false, "elem": [{"sel":"a","element":[]}]});
        let b_cfg = json!({"strict": false, "elem": [{"sel":"b","element":[]}], "mem": {"max": blimit, "prealloc": bpre}});
        let a_cuts = vec![alen / 2];
        let b_cuts = vec![blen / 2 + 11];
        let fresh = { let (c, i, k) = (b_cfg.clone(), b_in.clone(), b_cuts.clone());
            std::thread::spawn(move || { crate::driver::silence_panics(); observation("fresh-thread", &driver::run(&c, &i, &k, &RunOpts { send: true, ..RunOpts::default() }), &|_: &str| true) }).join().unwrap() };
        let after = { let (ac, ai, ak, c, i, k) = (a_cfg.clone(), a_in.clone(), a_cuts.clone(), b_cfg.clone(), b_in.clone(), b_cuts.clone());
            std::thread::spawn(move || { crate::driver::silence_panics();
                let _ = driver::run(&ac, &ai, &ak, &RunOpts { send: true, ..RunOpts::default() });
                let o1 = observation("after-a-large-rewrite-on-the-same-thread", &driver::run(&c, &i, &k, &RunOpts { send: true, ..RunOpts::default() }), &|_: &str| true);
                let o2 = observation("second-time-on-the-same-thread", &driver::run(&c, &i, &k, &RunOpts { send: true, ..RunOpts::default() }), &|_: &str| true);
                (o1, o2) }).join().unwrap() };
        n += 1;
        let rec = json!({"id": format!("c18-{n}"), "clauses": ["C18"], "hs": [], "obs": [fresh, after.0, after.1]});
        sh.push(&rec, &json!({"id": rec["id"], "history": hi, "cfg": b_cfg, "input_len": b_in.len(), "cuts": b_cuts}), None, true);
    }
    // history of the process: a rewrite must not depend on which selectors / settings this process has seen before.
    // The reference observation comes from a fresh child process (`lh run`); then a "neighbour" configuration runs in
    // this process (on another thread) and the configuration itself is observed here, twice.
    let fresh_process = |cfg: &Value, input: &[u8], cuts: &[usize]| -> Value {
        use std::io::Write;
        let exe = std::env::current_exe().unwrap();
        let mut ch = std::process::Command::new(exe).arg("run").stdin(std::process::Stdio::piped()).stdout(std::process::Stdio::piped()).stderr(std::process::Stdio::null()).spawn().unwrap();
        ch.stdin.take().unwrap().write_all(format!("{}\n", json!({"cfg": cfg, "input": input, "cuts": cuts})).as_bytes()).unwrap();
        let out = ch.wait_with_output().unwrap();
        let v: Value = serde_json::from_slice(out.stdout.split(|&b| b == b'\n').next().unwrap_or(b"{}")).unwrap_or(json!({"tl": []}));
        let tl: Vec<Value> = v["tl"].as_array().cloned().unwrap_or_default();
        observation("fresh-process", &tl, &|_: &str| true)
    };
    let doc = "<div class=c><p>1</p><P\u{3000} id=x>2</P\u{3000}><\u{a0}p>3</\u{a0}p><p class=C>4</p><x-y>5</x-y></div>".as_bytes().to_vec();
    let neighbours: Vec<(&str, &str)> = vec![("p", "p\u{3000}"), ("p\u{3000}", "p"), ("\u{a0}p", "p"), ("p", "\u{a0}p"), ("p ", "p"), ("div > p", "div>p"), (".c", ".C"), (".C", ".c"),
        ("P", "p"), ("div p", "div  p\u{3000}"), ("[class=c]", "[class=C]"), ("[class=\"c\" i]", "[class=\"c\"]"), ("x-y", "X-Y"), ("p:nth-child(1)", "p:nth-child(1 )"), ("*", "* "), ("#x", "#X")];
    for (hi, (first, second)) in neighbours.iter().enumerate() {
        let mk = |sel: &str| json!({"strict": false, "elem": [{"sel": sel, "element": [{"op":"before","a":["[m]"]}], "text": []}]});
        let (ca, cb) = (mk(first), mk(second));
        let fresh = fresh_process(&cb, &doc, &[7]);
        let (ca2, cb2, d2) = (ca.clone(), cb.clone(), doc.clone());
        let after = std::thread::spawn(move || { crate::driver::silence_panics();
            let _ = driver::run(&ca2, &d2, &[3], &RunOpts { send: true, ..RunOpts::default() });
            observation("after-a-neighbour-selector-in-this-process", &driver::run(&cb2, &d2, &[7], &RunOpts { send: true, ..RunOpts::default() }), &|_: &str| true) }).join().unwrap();
        let again = observation("again-on-the-main-thread", &driver::run(&cb, &doc, &[7], &RunOpts::default()), &all);
        n += 1;
        let rec = json!({"id": format!("c18-{n}"), "clauses": ["C18"], "hs": [], "obs": [fresh, after, again]});
        sh.push(&rec, &json!({"id": rec["id"], "process_history": hi, "first": first, "cfg": cb, "input": doc, "cuts": [7]}), None, true);
    }
    sh.finish(json!({"rule": "seeded (configuration, input, chunking) jobs (documents, fragment sequences, foreign content, random bytes; observer and mutating handler sets; encodings; memory limits; injected handler failures): the sequential run versus a repeat (also after a large rewrite lived and died on the same thread, versus a fresh thread), the Send handler types, a Send rewriter moved to a fresh thread for every write and for end(), and two concurrent executions on different threads of a pool that runs all jobs with yields and spins between writes (selectors are parsed concurrently on the pool threads)."}));
}
