//! Stream-level jobs (C01, C12, C15): record complete timelines of the real rewriter and project
//! them onto the event alphabet of spec/StreamProto.tla.
use crate::driver::{self, RunOpts};
use crate::gen::{self, Rng};
use crate::out::Shards;
use serde_json::{json, Value};

/// Projects a raw timeline to StreamProto's event alphabet. Adjacent non-empty chunks inside a
/// call are merged (how the rewriter slices its output is not constrained by any property).
pub fn project(tl: &[Value]) -> Vec<Value> {
    project_opt(tl, false)
}

/// `compact`: additionally drop successful content-handler events (only failures and bail-out
/// handlers matter to the stream-level contract) so that chunks merge across them; used for the
/// multi-megabyte runs of C15.
pub fn project_opt(tl: &[Value], compact: bool) -> Vec<Value> {
    let mut out: Vec<Value> = Vec::new();
    for e in tl {
        if compact && e["e"] == "ev" && e["k"] != "bo" && !e.get("fail").and_then(|x| x.as_bool()).unwrap_or(false) {
            continue;
        }
        match e["e"].as_str().unwrap_or("") {
            "chunk" => {
                let b = e["b"].as_array().unwrap();
                if !b.is_empty() {
                    if let Some(last) = out.last_mut() {
                        if last["e"] == "chunk" && !last["b"].as_array().unwrap().is_empty() {
                            last["b"].as_array_mut().unwrap().extend(b.iter().cloned());
                            continue;
                        }
                    }
                }
                out.push(json!({"e":"chunk","b":b}));
            }
            "enc" => out.push(json!({"e":"enc"})),
            "ev" => out.push(json!({"e":"ev","k":e["k"],"fail":e.get("fail").cloned().unwrap_or(json!(false))})),
            "call" => {
                if e["op"] == "write" {
                    out.push(json!({"e":"call","op":"write","b":e["b"]}));
                } else {
                    out.push(json!({"e":"call","op":e["op"]}));
                }
            }
            "ret" => {
                let mut r = json!({"e":"ret","res":e["res"]});
                if let Some(u) = e.get("usage") {
                    r["usage"] = u.clone();
                }
                out.push(r);
            }
            "new" => {
                out.push(json!({"e":"call","op":"new"}));
                let r = e["res"].as_str().unwrap_or("");
                out.push(json!({"e":"ret","res": if r.starts_with("panic") { "panic" } else { "err:cfg" }}));
            }
            _ => {}
        }
    }
    out
}

pub fn sink_bytes(tl: &[Value]) -> Vec<u8> {
    let mut v = Vec::new();
    for e in tl {
        if e["e"] == "chunk" {
            for b in e["b"].as_array().unwrap() {
                v.push(b.as_u64().unwrap() as u8);
            }
        }
    }
    v
}

pub fn has_ops(cfg: &Value) -> bool {
    fn script_has_ops(s: &Value) -> bool {
        s.as_array().map(|a| a.iter().any(|op| {
            let name = op["op"].as_str().unwrap_or("");
            if name == "on_end_tag" {
                op["a"][0].as_array().map(|x| !x.is_empty()).unwrap_or(false)
            } else {
                !matches!(name, "get_attr" | "has_attr")
            }
        })).unwrap_or(false)
    }
    let mut any = false;
    for key in ["elem", "doc"] {
        if let Some(hs) = cfg.get(key).and_then(|x| x.as_array()) {
            for h in hs {
                for k in ["element", "text", "comments", "doctype", "end"] {
                    if let Some(s) = h.get(k) {
                        any |= script_has_ops(s);
                    }
                }
            }
        }
    }
    any
}

/// The documented C01 exception: text nodes delivered to a text handler whose bytes do not
/// round-trip through the declared encoding. Witness = encoding_rs whole-slice decode + encode.
pub fn norm_exceptions(tl: &[Value], input: &[u8], enc_label: &str) -> Vec<Value> {
    let enc = encoding_rs::Encoding::for_label_no_replacement(enc_label.as_bytes()).unwrap();
    let mut ranges: Vec<(usize, usize)> = Vec::new();
    let mut open: std::collections::HashMap<String, usize> = std::collections::HashMap::new();
    for e in tl {
        if e["e"] == "ev" && e["k"] == "tx" {
            let h = e["h"].as_str().unwrap().to_string();
            let s = e["loc"][0].as_u64().unwrap() as usize;
            let en = e["loc"][1].as_u64().unwrap() as usize;
            let st = *open.entry(h.clone()).or_insert(s);
            if e["last"].as_bool().unwrap() {
                ranges.push((st, en));
                open.remove(&h);
            }
        }
    }
    for (_, st) in open {
        ranges.push((st, input.len()));
    }
    ranges.sort_unstable();
    ranges.dedup();
    let mut out = Vec::new();
    let mut covered = 0usize;
    for (s, e) in ranges {
        if s < covered || e > input.len() || s >= e {
            continue;
        }
        let slice = &input[s..e];
        let (text, _) = enc.decode_without_bom_handling(slice);
        let (bytes, _, _) = enc.encode(&text);
        if bytes.as_ref() != slice {
            out.push(json!({"s": s, "e": e, "norm": bytes.as_ref()}));
            covered = e;
        }
    }
    out
}

pub fn has_text_handler(cfg: &Value) -> bool {
    for key in ["elem", "doc"] {
        if let Some(hs) = cfg.get(key).and_then(|x| x.as_array()) {
            if hs.iter().any(|h| h.get("text").is_some()) {
                return true;
            }
        }
    }
    false
}

/// Does the whole input survive decode -> encode in the declared encoding? (encoding_rs witness)
pub fn round_trips(input: &[u8], enc_label: &str) -> bool {
    let enc = encoding_rs::Encoding::for_label_no_replacement(enc_label.as_bytes()).unwrap();
    let (text, had_errors) = enc.decode_without_bom_handling(input);
    if had_errors {
        return false;
    }
    let (bytes, _, unmappable) = enc.encode(&text);
    !unmappable && bytes.as_ref() == input
}

pub fn proto_cfg(cfg: &Value, exc: Vec<Value>, clauses: &[&str]) -> Value {
    let max = cfg.get("mem").and_then(|m| m.get("max")).and_then(|x| x.as_i64()).unwrap_or(-1);
    json!({
        "clauses": clauses,
        "passthru": !has_ops(cfg),
        "gmem": cfg.get("mem").and_then(|m| m.get("graceful")).and_then(|x| x.as_bool()).unwrap_or(false),
        "ghandler": cfg.get("gh").and_then(|x| x.as_bool()).unwrap_or(false),
        "max": max,
        "nbail": cfg.get("bail").and_then(|x| x.as_array()).map(|a| a.len()).unwrap_or(0),
        "exc": exc,
    })
}

pub fn record(id: &str, cfg: &Value, input: &[u8], tl: &[Value], reference: Option<&[u8]>, clauses: &[&str]) -> Value {
    let enc = cfg.get("enc").and_then(|x| x.as_str()).unwrap_or("utf-8");
    // C01's documented exception (text captured by a text handler that the encoding cannot
    // round-trip) is decided precisely in the C13 job; here such runs are only protocol-checked.
    let _ = norm_exceptions;
    let mut pc = proto_cfg(cfg, vec![], clauses);
    if has_text_handler(cfg) && !round_trips(input, enc) {
        pc["passthru"] = json!(false);
    }
    // a <meta charset> switch re-encodes captured text in the new encoding: identity is only
    // claimed for ASCII input there (the switch itself is decided under C13)
    if has_text_handler(cfg) && cfg.get("meta").and_then(|x| x.as_bool()).unwrap_or(false) && !input.is_ascii() {
        pc["passthru"] = json!(false);
    }
    let _ = tl;
    json!({
        "id": id,
        "cfg": pc,
        "hasref": reference.is_some(),
        "ref": reference.unwrap_or(&[]),
        "tl": project(tl),
    })
}

fn small_inputs(rng: &mut Rng, pair_pool: usize) -> Vec<Vec<u8>> {
    let mut v: Vec<Vec<u8>> = Vec::new();
    v.push(vec![]);
    for i in 0..gen::FRAGS.len() {
        v.push(gen::frag_bytes(i).to_vec());
    }
    // all ordered pairs over a seed-rotated pool
    let mut pool: Vec<usize> = (0..gen::FRAGS.len()).collect();
    for i in (1..pool.len()).rev() {
        pool.swap(i, rng.below(i + 1));
    }
    pool.truncate(pair_pool);
    for &a in &pool {
        for &b in &pool {
            let mut x = gen::frag_bytes(a).to_vec();
            x.extend_from_slice(gen::frag_bytes(b));
            v.push(x);
        }
    }
    v
}

pub fn job_c01(out_dir: &str, tier: &str, seed: u64) {
    let quick = tier == "quick";
    let mut rng = Rng::new(seed);
    let mut sh = Shards::new(out_dir, "c01", 6_000_000);
    let sets = gen::observer_sets();
    let mut n = 0usize;
    let mut emit = |sh: &mut Shards, cfg: &Value, input: &[u8], cuts: &[usize], n: &mut usize| {
        let tl = driver::run(cfg, input, cuts, &RunOpts::default());
        *n += 1;
        let rec = record(&format!("c01-{}", *n), cfg, input, &tl, None, &["C01"]);
        let key = format!("{}|{}", rec["cfg"], rec["tl"]);
        let src = json!({"id": rec["id"], "cfg": cfg, "input": input, "cuts": cuts});
        sh.push(&rec, &src, Some(&key), !input.is_empty());
    };
    // (1) exhaustive small inputs x every cut x rotating handler sets
    let small = small_inputs(&mut rng, if quick { 22 } else { 60 });
    for (ii, input) in small.iter().enumerate() {
        let cutsets = gen::cut_sets(input.len(), &mut rng, if quick { 10 } else { 24 }, 2);
        let nsets = if input.len() <= 12 { sets.len() } else { 3 };
        for si in 0..nsets {
            let (_, hs) = &sets[(ii + si * 5) % sets.len()];
            let strict = (ii + si) % 3 != 0;
            let cfg = gen::merge(hs, &json!({"strict": strict, "enc": "utf-8"}));
            for cuts in &cutsets {
                emit(&mut sh, &cfg, input, cuts, &mut n);
            }
        }
    }
    // (2) seeded longer inputs
    let nrand = if quick { 1500 } else { 40000 };
    for i in 0..nrand {
        let input = match i % 4 {
            0 => gen::random_doc(&mut rng, 14),
            1 => gen::random_bytes(&mut rng, 40),
            _ => gen::random_input(&mut rng, 3, 10),
        };
        let (_, hs) = &sets[rng.below(sets.len())];
        let encs = if quick { gen::ENCODINGS_QUICK } else { gen::ENCODINGS_ALL };
        let enc = if rng.chance(1, 2) { "utf-8" } else { *rng.pick(encs) };
        let cfg = gen::merge(hs, &json!({"strict": rng.chance(2, 3), "enc": enc,
            "mem": {"prealloc": *rng.pick(&[0usize, 8, 1024])}}));
        for cuts in gen::light_cut_sets(input.len(), &mut rng, 3) {
            emit(&mut sh, &cfg, &input, &cuts, &mut n);
        }
    }
    // (3) non-UTF-8 encodings with high bytes (malformed / non-canonical sequences) under text handlers
    let nenc = if quick { 400 } else { 8000 };
    for _ in 0..nenc {
        let encs = if quick { gen::ENCODINGS_QUICK } else { gen::ENCODINGS_ALL };
        let enc = *rng.pick(encs);
        let mut input = Vec::new();
        for _ in 0..(1 + rng.below(6)) {
            match rng.below(4) {
                0 => input.extend_from_slice(gen::frag_bytes(rng.below(gen::FRAGS.len()))),
                1 => input.extend_from_slice(b"<a>"),
                _ => {
                    for _ in 0..(1 + rng.below(5)) {
                        input.push(if rng.chance(2, 3) { 0x80 + rng.below(0x80) as u8 } else { b'a' + rng.below(26) as u8 });
                    }
                }
            }
        }
        let (_, hs) = &sets[*rng.pick(&[0usize, 1, 2, 6, 12])];
        let cfg = gen::merge(hs, &json!({"strict": false, "enc": enc}));
        for cuts in gen::light_cut_sets(input.len(), &mut rng, 2) {
            emit(&mut sh, &cfg, &input, &cuts, &mut n);
        }
    }
    // (4) long tokens (buffered across several writes) and multi-write schedules whose boundaries fall inside tags:
    // the parsing buffer is filled, partly consumed, emptied and filled again
    let nlong = if quick { 250 } else { 6000 };
    for li in 0..nlong {
        let mut input = Vec::new();
        let mut inside: Vec<usize> = Vec::new();   // offsets inside tags / comments
        for _ in 0..(3 + rng.below(4)) {
            let start = input.len();
            match rng.below(6) {
                0 => { input.extend_from_slice(b"<img alt=\""); let n = 100 + rng.below(220); for j in 0..n { input.push(b'a' + ((j + li) % 26) as u8); } input.extend_from_slice(b"\" class=c>"); }
                1 => { input.push(b'<'); let n = 110 + rng.below(200); for j in 0..n { input.push(b'a' + ((j * 3 + li) % 26) as u8); } input.extend_from_slice(b" x=1>"); }
                2 => { input.extend_from_slice(b"<!--"); let n = 20 + rng.below(200); for j in 0..n { input.push(b'k' + ((j + li) % 5) as u8); } input.extend_from_slice(b"-->"); }
                3 => input.extend_from_slice(b"<a href=x class='y z'>"),
                4 => input.extend_from_slice(b"</a><p id=q>"),
                _ => { input.extend_from_slice("text \u{FEFF}\u{e9} ".as_bytes()); continue; }
            }
            let end = input.len();
            for _ in 0..2 { inside.push(start + 1 + rng.below(end - start - 1)); }
        }
        input.extend_from_slice(b"<b cla");
        input.extend_from_slice(b"ss=z>end</b>");
        if inside.is_empty() { inside.push(1); }
        let hs_idx = [0usize, 1, 2, 6, 12][li % 5];
        let (_, hs) = &sets[hs_idx % sets.len()];
        let cfg = gen::merge(hs, &json!({"strict": false, "enc": "utf-8", "mem": {"prealloc": *rng.pick(&[0usize, 1024])}}));
        for _ in 0..(if quick { 4 } else { 8 }) {
            let k = 3 + rng.below(4);
            let mut cuts: Vec<usize> = (0..k).map(|_| if rng.chance(3, 4) { *rng.pick(&inside[..]) } else { rng.below(input.len() + 1) }).collect();
            cuts.push(input.len() - 9);  // inside the last start tag
            cuts.sort_unstable(); cuts.dedup();
            emit(&mut sh, &cfg, &input, &cuts, &mut n);
        }
    }
    // (5) buffer life cycle, systematically: write 1 ends inside token A (tail buffered), write 2 completes A and ends deep
    // inside a long token B (buffer partly consumed, long remainder kept), write 3 completes B and ends in text (buffer
    // emptied), write 4 ends inside token C (buffered again), write 5 the rest; all within the preallocated buffer
    for (bi, (input, scheds)) in gen::buffer_cycle_cases().iter().enumerate() {
        for (hi, hs_idx) in [0usize, 1, 2, 6, 12, 5].iter().enumerate() {
            let (_, hs) = &sets[*hs_idx % sets.len()];
            for prealloc in [1024usize, 0] {
                if prealloc == 0 && (hi + bi) % 2 == 1 { continue; }
                let cfg = gen::merge(hs, &json!({"strict": false, "enc": "utf-8", "mem": {"prealloc": prealloc}}));
                for cuts in scheds { emit(&mut sh, &cfg, input, cuts, &mut n); }
            }
        }
    }
    sh.finish(json!({"rule": "inputs: empty, every single fragment of the alphabet, all ordered pairs over a seed-rotated pool, seeded fragment sequences / balanced documents / random bytes, long tokens (100-320 bytes) under 4-7-write schedules with boundaries inside tags, the buffer life cycle (buffered tail -> partly consumed with a long remainder -> emptied -> buffered again) for 3 token kinds x 3 lengths x 6 handler sets x 72 five-write schedules, high-byte text in legacy encodings; schedules: single write, every 1-cut, every 2-cut (short inputs), byte-wise, byte-wise with empty writes, leading/trailing empty write, random k-cuts; configurations: 13 observer handler sets x strict x encodings x prealloc. A case is non-trivial when the input is non-empty; distinct = distinct (cfg, projected timeline).",
        "frag_alphabet": gen::FRAGS.len()}));
}

/// Mutating handler sets used by the protocol jobs (C12/C11/C15): name -> cfg fragment.
pub fn mutating_sets() -> Vec<(&'static str, Value)> {
    let obs = json!([]);
    vec![
        ("m-insert", json!({"elem":[{"sel":"*","element":[{"op":"before","a":["[b]"]},{"op":"after","a":["[a]"]},{"op":"append","a":["<i>x</i>"]},{"op":"prepend","a":["<p>",false]}]}],
                            "doc":[{"end":[{"op":"append","a":["END"]}]}]})),
        ("m-remove", json!({"elem":[{"sel":"a","element":[{"op":"remove"}]},{"sel":"b","element":[{"op":"remove_keep"}]}],
                            "doc":[{"text":[{"op":"replace","a":["T"],"nonempty":true}],"comments":[{"op":"set_text","a":["zz"]}],"doctype":[{"op":"remove"}]}]})),
        ("m-empty-comment", json!({"doc":[{"comments":[{"op":"set_text","a":[""]}]}]})),
        ("m-empty-strings", json!({"elem":[{"sel":"*","element":[{"op":"before","a":[""]},{"op":"set_inner","a":["",false]},{"op":"after","a":["",false]}],
                                             "text":[{"op":"set_str","a":[""]}],"comments":[{"op":"replace","a":[""]}]}],
                                    "doc":[{"end":[{"op":"append","a":[""]},{"op":"append","a":["",false]}]}]})),
        ("m-empty-replace", json!({"elem":[{"sel":"p","element":[{"op":"replace","a":[""]}]},{"sel":"div","element":[{"op":"s_append","a":[["", "x", ""]]},{"op":"s_before","a":[[]]}]}],
                                    "doc":[{"text":[{"op":"replace","a":[""]}],"comments":[{"op":"before","a":[""]},{"op":"after","a":[""]}]}]})),
        ("m-attrs", json!({"elem":[{"sel":"a","element":[{"op":"set_attr","a":["href","y"]},{"op":"set_name","a":["b"]},{"op":"on_end_tag","a":[[{"op":"before","a":["!"]},{"op":"set_name","a":["b"]}]]}]},
                                    {"sel":"div","element":obs,"text":obs}],
                           "doc":[{"end":obs}]})),
        ("m-endtag", json!({"elem":[{"sel":"*","element":[{"op":"on_end_tag","a":[[{"op":"remove"}]]}]}],"doc":[{"end":[{"op":"append","a":["<!--e-->"]}]}]})),
        // two document-end handlers that both append (they run in reverse registration order; a failure of the first to
        // run must keep the other from running)
        ("m-two-ends", json!({"doc":[{"end":[{"op":"append","a":["<!--A-->"]}]},{"end":[{"op":"append","a":["<!--B-->"]}],"comments":obs}],
                              "elem":[{"sel":"p","element":[{"op":"set_inner","a":[""]},{"op":"before","a":["",true]}],"text":[{"op":"after","a":["",true]}]}]})),
        // attribute values that need escaping at their very start / twice in a row / at the end; empty values and names
        ("m-attr-quotes", json!({"elem":[{"sel":"a","element":[{"op":"set_attr","a":["title","\"quoted\" t"]},{"op":"set_attr","a":["x","a\"\"b"]},{"op":"set_attr","a":["y","\""]},{"op":"set_attr","a":["z",""]}]},
                                         {"sel":"p","element":[{"op":"set_attr","a":["q","\"\""]},{"op":"rm_attr","a":["id"]}]},
                                         {"sel":"div","element":[{"op":"set_attr","a":["w","end\""]},{"op":"set_name","a":["section"]}]}]})),
    ]
}

fn count_invocations(tl: &[Value]) -> usize {
    tl.iter().filter(|e| e["e"] == "ev" && e["k"] != "bo").count()
}

pub fn job_c12(out_dir: &str, tier: &str, seed: u64) {
    let quick = tier == "quick";
    let mut rng = Rng::new(seed ^ 0xC12);
    let mut sh = Shards::new(out_dir, "c12", 6_000_000);
    let mut sets = gen::observer_sets();
    sets.extend(mutating_sets());
    let mut n = 0usize;
    let opts = RunOpts { poke_after_error: true, ..RunOpts::default() };
    let mut failure_runs = 0usize;
    let mut mem_runs = 0usize;
    let bails = [json!([]), json!([[{"op":"append","a":["<!--bail-->"]}]]), json!([[{"op":"append","a":["B1"]}],[{"op":"append","a":["b<2",false]}]])];
    let mut emit = |sh: &mut Shards, cfg: &Value, input: &[u8], cuts: &[usize], reference: Option<&[u8]>, n: &mut usize, opts: &RunOpts| -> Vec<Value> {
        let tl = driver::run(cfg, input, cuts, opts);
        *n += 1;
        let rec = record(&format!("c12-{}", *n), cfg, input, &tl, reference, &["C12"]);
        let key = format!("{}|{}|{}", rec["cfg"], rec["tl"], rec["ref"]);
        let src = json!({"id": rec["id"], "cfg": cfg, "input": input, "cuts": cuts, "poke": opts.poke_after_error});
        let failed = tl.iter().any(|e| e["e"] == "ret" && e["res"] != "ok");
        sh.push(&rec, &src, Some(&key), failed || !input.is_empty());
        tl
    };
    let mut inputs: Vec<Vec<u8>> = vec![vec![]];
    for i in 0..gen::FRAGS.len() {
        inputs.push(gen::frag_bytes(i).to_vec());
    }
    let nrand = if quick { 500 } else { 12000 };
    for i in 0..nrand {
        inputs.push(match i % 3 { 0 => gen::random_doc(&mut rng, 12), 1 => gen::random_input(&mut rng, 2, 8), _ => {
            let mut v = gen::random_doc(&mut rng, 6);
            let metas: [&[u8]; 4] = [b"<meta charset=windows-1251>", b"<meta http-equiv=content-type content='text/html; charset=shift_jis'>", b"<meta charset=utf-16>", b"<META CHARSET=\"koi8-r\">"];
            let m = metas[rng.below(4)];
            let at = rng.below(v.len() + 1);
            let tail = v.split_off(at);
            v.extend_from_slice(m); v.extend_from_slice("é\u{44f}".as_bytes()); v.extend_from_slice(&tail);
            v.extend_from_slice(metas[rng.below(4)]);
            v
        }});
    }
    for (ii, input) in inputs.iter().enumerate() {
        let nsets = if ii <= gen::FRAGS.len() { 4 } else { 2 };
        for si in 0..nsets {
            let (_, hs) = &sets[(ii + si * 3 + rng.below(2)) % sets.len()];
            let meta = ii % 3 == 2 || rng.chance(1, 6);
            let base = gen::merge(hs, &json!({"strict": rng.chance(3, 4), "enc": "utf-8", "meta": meta}));
            let mut cutsets = gen::light_cut_sets(input.len(), &mut rng, 2);
            if input.len() <= 10 {
                for i in 1..input.len() { cutsets.push(vec![i]); }
            }
            for cuts in &cutsets {
                // the failure-free run: protocol + reference for the prefix clause
                let tl0 = emit(&mut sh, &base, input, cuts, None, &mut n, &opts);
                let reference = sink_bytes(&tl0);
                let ninv = count_invocations(&tl0);
                let cap = if quick { 6 } else { 24 };
                // a failure at every handler invocation index
                for i in 1..=ninv.min(cap) {
                    let idx = if ninv <= cap { i } else { 1 + rng.below(ninv) };
                    let gh = rng.chance(1, 2);
                    let cfg = gen::merge(&base, &json!({"fail_at": idx, "gh": gh, "bail": bails[rng.below(3)]}));
                    emit(&mut sh, &cfg, input, cuts, Some(&reference), &mut n, &opts);
                    failure_runs += 1;
                }
                // memory limits: every allocation site can be the failing one
                if !input.is_empty() && rng.chance(1, 2) {
                    for _ in 0..2 {
                        let max = *rng.pick(&[0usize, 1, 2, 3, 5, 8, 13, 21, 40, 100, 900]);
                        let cfg = gen::merge(&base, &json!({"mem": {"max": max, "prealloc": 0, "graceful": rng.chance(1, 2)}, "bail": bails[rng.below(3)]}));
                        emit(&mut sh, &cfg, input, cuts, Some(&reference), &mut n, &opts);
                        mem_runs += 1;
                    }
                }
            }
        }
    }
    // memory-limit sweep at the buffering sites: a chunk that ends inside a construct leaves a tail to be
    // buffered (first buffering / append); every limit from 0 to beyond the need, flags on and off
    let tails: [&[u8]; 8] = [b"hello<xaaaa id=1>bye</xaaaa>", b"<img>hello<div class=c>t</div>", b"a<!--comment-->b", b"<p>x</p><a href='u v'>y</a>",
        b"<title>t</title><b>", b"<!DOCTYPE html><i>", b"x<svg><![CDATA[c]]></svg>", b"<script>1</script><em>"];
    for (ti, input) in tails.iter().enumerate() {
        for si in [0usize, 5, 13, 14, 18] {
            let (_, hs) = &sets[(si + ti) % sets.len()];
            let base = gen::merge(hs, &json!({"strict": false, "enc": "utf-8"}));
            for cut in 1..input.len() {
                if quick && (cut + ti + si) % 2 == 1 { continue; }
                let cuts = vec![cut];
                let tl0 = driver::run(&base, input, &cuts, &RunOpts::default());
                let reference = sink_bytes(&tl0);
                for max in 0..=(input.len() - cut + 2).min(if quick { 14 } else { 40 }) {
                    for graceful in [false, true] {
                        let cfg = gen::merge(&base, &json!({"mem": {"max": max, "prealloc": 0, "graceful": graceful}, "bail": bails[(max + cut) % 3]}));
                        emit(&mut sh, &cfg, input, &cuts, Some(&reference), &mut n, &opts);
                        mem_runs += 1;
                    }
                }
            }
        }
    }
    sh.finish(json!({"rule": "call histories new; write*; end over: empty document, every single fragment, seeded documents incl. meta-charset switches; schedules single / byte-wise / random k-cuts / every 1-cut (short); 13 observer + 7 mutating handler sets (incl. empty-string insertions and empty comment text); a handler failure injected at every invocation index (graceful flag on/off, 0-2 bail-out handlers), memory limits from 0 up with prealloc 0 (graceful on/off); every failed run is poked with one more write. Each failing run carries the failure-free run's sink as reference for the prefix clause. Non-trivial: non-empty input or a failing call.",
        "failure_injection_runs": failure_runs, "memory_limit_runs": mem_runs}));
}

pub fn job_c15(out_dir: &str, tier: &str, seed: u64) { job_c15_impl(out_dir, tier, seed, None, false) }

/// The pathological shapes run one per child process (`lh gen-c15-shape`), on a thread with a 1 MiB stack: stack
/// exhaustion or an abort kills the child, not the job, and is recorded as a panic-like event of that shape.
pub fn job_c15_shape_child(out_dir: &str, tier: &str, seed: u64, si: usize, stack_only: bool) {
    let (o, t) = (out_dir.to_string(), tier.to_string());
    let h = std::thread::Builder::new().stack_size(1 << 20).spawn(move || job_c15_impl(&o, &t, seed, Some(si), stack_only)).unwrap();
    if h.join().is_err() { std::process::exit(3); }
}

/// `stack_only`: the unoptimised build's pass over one shape (one handler configuration, one schedule, half size):
/// only whether the call returns on a 1 MiB stack matters.
fn job_c15_impl(out_dir: &str, tier: &str, seed: u64, only: Option<usize>, stack_only: bool) {
    let quick = tier == "quick";
    let mut rng = Rng::new(seed ^ 0xC15);
    let prefix = match only { None => "c15".to_string(), Some(si) => if stack_only { format!("c15k{si}") } else { format!("c15s{si}") } };
    let mut sh = Shards::new(out_dir, &prefix, 6_000_000);
    let mut sets = gen::observer_sets();
    sets.extend(mutating_sets());
    let mut n = match only { None => 0usize, Some(si) => 1_000_000 * (si + 1) };
    let mut max_us_per_kb = 0f64;
    let mut big_runs = 0usize;
    let mut growth_checks = 0usize;
    let mut max_ratio = 0f64;
    let mut emit = |sh: &mut Shards, cfg: &Value, input: &[u8], cuts: &[usize], n: &mut usize, keep_bytes: bool| -> f64 {
        let t = cpu_now();
        let tl = driver::run(cfg, input, cuts, &RunOpts { poke_after_error: true, ..RunOpts::default() });
        let dt = cpu_now() - t;
        *n += 1;
        let mut rec = record(&format!("c15-{}", *n), cfg, input, &tl, None, &["C15"]);
        if !keep_bytes {
            // large runs: the judge sees lengths only (stream-level contract), not the bytes
            rec["cfg"]["passthru"] = json!(false);
            rec["tl"] = json!(project_opt(&tl, true));
            for e in rec["tl"].as_array_mut().unwrap() {
                if e.get("b").is_some() {
                    let l = e["b"].as_array().unwrap().len();
                    e["b"] = if l == 0 { json!([]) } else { json!([l.min(1 << 30)]) };
                }
            }
        }
        let src = json!({"id": rec["id"], "cfg": cfg, "input": if keep_bytes { json!(input) } else { json!({"len": input.len(), "head": &input[..input.len().min(64)]}) }, "cuts": cuts});
        let key = format!("{}|{}", rec["cfg"], rec["tl"]);
        sh.push(&rec, &src, Some(&key), true);
        dt
    };
    if only.is_none() {
    // (0) charset declarations of every form and label (also labels that must be refused) with handlers that capture
    // the tokens after them, meta adjustment on
    for meta in ["<meta charset=utf-16>", "<meta charset=UTF-16BE>", "<meta charset=iso-2022-jp>", "<meta charset=replacement>", "<meta charset=x-user-defined>",
                 "<meta http-equiv=content-type content='text/html; charset=utf-16'>", "<meta http-equiv=\"Content-Type\" content=\"text/html;charset=utf-16le\">",
                 "<meta http-equiv=content-type content='text/html; charset=UTF-16BE'>", "<meta http-equiv=content-type content='text/html; charset=iso-2022-jp'>",
                 "<meta http-equiv=content-type content='text/html; charset=csiso2022jp'>", "<meta http-equiv=content-type content='charset=replacement'>",
                 "<meta http-equiv=content-type content='text/html; charset=shift_jis'>", "<meta charset=gb18030>", "<meta http-equiv=refresh content='0; charset=utf-16'>",
                 "<meta http-equiv=content-type content=''>", "<meta http-equiv=content-type content='charset='>", "<meta charset=''>", "<meta charset>"] {
        let mut input = b"<p a=b>x\xc3\xa9</p>".to_vec();
        input.extend_from_slice(meta.as_bytes());
        input.extend_from_slice("<div id=q>t\u{e9}xt<!--c\u{e9}--><b class=k>y</b></div><meta charset=koi8-r>z".as_bytes());
        for (si, (_, hs)) in sets.iter().enumerate() {
            if si % 2 == 1 && si > 6 { continue; }
            for enc in ["utf-8", "windows-1252"] {
                let cfg = gen::merge(hs, &json!({"strict": false, "enc": enc, "meta": true}));
                emit(&mut sh, &cfg, &input, &[rng.below(input.len())], &mut n, true);
            }
        }
    }
    // (1) random bytes, grammar-based and mutated inputs, random settings
    let nsmall = if quick { 6000 } else { 200000 };
    for i in 0..nsmall {
        let mut input = match i % 5 { 0 => gen::random_bytes(&mut rng, 64), 1 => gen::random_doc(&mut rng, 16), 2 => gen::random_input(&mut rng, 1, 12),
            3 => { let mut v = gen::random_input(&mut rng, 1, 8); for _ in 0..(1 + rng.below(3)) { if !v.is_empty() { let p = rng.below(v.len()); match rng.below(3) { 0 => { v.remove(p); } 1 => v[p] = rng.below(256) as u8, _ => v.insert(p, *rng.pick(b"<>/!-='\" ")) } } } v }
            _ => { let mut v = Vec::new(); for _ in 0..rng.below(24) { v.push(*rng.pick(b"<>/!-=\"'[]? a\0")); } v } };
        if rng.chance(1, 10) { input.extend_from_slice(gen::frag_bytes(rng.below(gen::FRAGS.len()))); }
        let (_, hs) = &sets[rng.below(sets.len())];
        let enc = if rng.chance(1, 2) { "utf-8" } else { *rng.pick(gen::ENCODINGS_ALL) };
        let mut cfg = gen::merge(hs, &json!({"strict": rng.chance(1, 2), "enc": enc, "esi": rng.chance(1, 4), "meta": rng.chance(1, 4)}));
        if rng.chance(1, 4) {
            let pre = *rng.pick(&[0usize, 1, 7, 64]);
            cfg = gen::merge(&cfg, &json!({"mem": {"max": pre + rng.below(200), "prealloc": pre, "graceful": rng.chance(1, 2)}, "gh": rng.chance(1, 2)}));
        }
        if rng.chance(1, 8) { cfg = gen::merge(&cfg, &json!({"fail_at": 1 + rng.below(6), "gh": rng.chance(1, 2)})); }
        let cuts = { let k = rng.below(5); let mut c: Vec<usize> = (0..k).map(|_| rng.below(input.len() + 1)).collect(); c.sort_unstable(); c };
        emit(&mut sh, &cfg, &input, &cuts, &mut n, true);
    }
    // (1a) a fixed list of selector strings around the edges of the supported grammar (every seed runs them)
    for css in [":not(::x)", "a:not(::before)", ":not(a::b)", ":not(::x[y])", "a::before", "::x", "a:not()", ":not(:not(:not(a)))", ":is(a)", ":where(a)", ":has(a)",
                "a:hover", "a:nth-child(2 of b)", "a:nth-last-child(1)", ":root", "a|b", "*|a", "|a", "a + b", "a ~ b", "a >", "> a", "a,,b", ",a", "a,", "[x", "[x=]", "[x='a' j]",
                "[=a]", "#", ".", "a#", "a.", "a:", "a::", "\\", "a\\", "a\\\n", "\u{0}", "a\u{0}", "-", "--", "-1", "1a", "#1", ".1", "a:nth-child(n+)", "a:nth-child(+ n)", "a:nth-child(2n + -1)",
                "a:nth-child(even of)", "a:nth-of-type()", ":not(", "a)", "a(", "a[b](c)", "a /* c */ b", "a/**/", "/**/", "@media", "a{b}", "a!important", "a;b", "<a>", "a > > b",
                "a:not(b, c)", "a:not(b c)", "a:not(b > c)", "a:not(*|b)", "A:NOT(B)", "a:NTH-CHILD(2N+1)", "[x=\"a\nb\"]", "[x='\\'']", "[x|=a]", "[x|='']", "[x~=' ']", "[x i]", "[x=a I]", "[x=a s]",
                "e\u{301}", "\u{1F600}", ".\u{1F600}", "#\u{e9}", "[\u{e9}=\u{e9}]", "a:not(\u{e9})", "\u{3000}a", "a\u{a0}"] {
        let cfg = json!({"strict": false, "enc": "utf-8", "elem": [{"sel": css, "element": [{"op":"set_attr","a":["x","y"]}], "text": [], "comments": []}]});
        let input: &[u8] = b"<ul><li>a</li><li class=c>b<!--c--></li></ul><a href=x><b></b></a>";
        emit(&mut sh, &cfg, input, &[7], &mut n, true);
        emit(&mut sh, &gen::merge(&cfg, &json!({"enc": "shift_jis"})), input, &[], &mut n, true);
    }
    // (1b) selector strings and API argument strings: grammar-based, mutated and extreme values
    let nsel = if quick { 4000 } else { 120000 };
    let extreme = ["2147483647", "-2147483648", "2147483648", "-2147483647", "99999999999999999999", "-0", "+0", "1e9", "0x10", ""];
    for i in 0..nsel {
        let mut css = crate::props::sel::render_selector(&crate::props::sel::gen_selector(&mut rng));
        match i % 6 {
            0 => {}
            1 => { let a = *rng.pick(&extreme); let b = *rng.pick(&extreme); let kind = *rng.pick(&["nth-child", "nth-of-type"]);
                   css = format!("{}:{kind}({a}n{}{b})", rng.pick(&["li", "*", "a", ""]), if b.starts_with('-') || b.starts_with('+') { "" } else { "+" }); }
            2 => { let kind = *rng.pick(&["nth-child", "nth-of-type"]); css = format!("a:{kind}(n{})", rng.pick(&extreme)); }
            3 => { let mut b: Vec<char> = css.chars().collect(); for _ in 0..(1 + rng.below(3)) { if !b.is_empty() { let p = rng.below(b.len()); match rng.below(3) { 0 => { b.remove(p); } 1 => b[p] = *rng.pick(&['(', ')', '[', ']', ':', '>', ',', '\\', '"', '\'', '*', '#', '.', '\0', 'é', ' ', '+', '~', '|', '=', '^', '$', '-', '9']), _ => b.insert(p, *rng.pick(&['(', ')', '[', ':', ',', '\\', '"', ' ', 'n', '-'])) } } } css = b.into_iter().collect(); }
            4 => { css = format!("{}{}", ":not(".repeat(1 + rng.below(40)), "a"); css.push_str(&")".repeat(rng.below(42))); }
            _ => { css = (0..(1 + rng.below(300))).map(|k| format!("a{k}")).collect::<Vec<_>>().join(*rng.pick(&[",", " ", ">", " > "])); }
        }
        let arg = |rng: &mut Rng| -> String { let v = crate::props::safe::strings_small(); v[rng.below(v.len())].clone() };
        let cfg = json!({"strict": rng.chance(1, 2), "enc": "utf-8",
            "elem": [{"sel": css, "element": [{"op":"set_attr","a":[arg(&mut rng), arg(&mut rng)]},{"op":"set_name","a":[arg(&mut rng)]},{"op":"append","a":[arg(&mut rng), rng.chance(1, 2)]},{"op":"get_attr","a":[arg(&mut rng)]},{"op":"rm_attr","a":[arg(&mut rng)]}],
                      "comments": [{"op":"set_text","a":[arg(&mut rng)]}]}]});
        let input: &[u8] = b"<ul><li>a</li><li class=c>b<!--c--></li><li x=1>c</li></ul><a href=x><b></b></a>";
        emit(&mut sh, &cfg, input, &[rng.below(input.len())], &mut n, true);
    }
    }
    // (2) pathological shapes; judged on lengths only; wall-clock per KiB observed
    // every shape is a function of a size multiplier, so that the same shape at half the size can be measured
    let build_shapes = |mult: f64| -> Vec<(String, Vec<u8>)> {
        let sz = |n: usize| -> usize { ((n as f64) * mult) as usize };
        let mut shapes: Vec<(String, Vec<u8>)> = Vec::new();
    shapes.push(("deep-nesting".into(), b"<div>".repeat(sz(25_000))));
        shapes.push(("deep-nesting-mixed".into(), b"<a><b><svg><p>".repeat(sz(8_000))));
        shapes.push(("long-text".into(), vec![b'x'; sz(1_000_000)]));
        shapes.push(("long-tag-name".into(), { let mut v = b"<".to_vec(); v.extend(vec![b'a'; sz(300_000)]); v.push(b'>'); v }));
        shapes.push(("long-attr-value".into(), { let mut v = b"<a b='".to_vec(); v.extend(vec![b'v'; sz(300_000)]); v.extend_from_slice(b"'>"); v }));
        shapes.push(("many-attrs".into(), { let mut v = b"<a".to_vec(); for i in 0..(sz(5000)) { v.extend_from_slice(format!(" a{i}=v").as_bytes()); } v.push(b'>'); v }));
        shapes.push(("long-comment".into(), { let mut v = b"<!--".to_vec(); v.extend(vec![b'-'; sz(300_000)]); v.extend_from_slice(b"-->"); v }));
        shapes.push(("unterminated-comment".into(), { let mut v = b"<!--".to_vec(); v.extend(vec![b'c'; sz(200_000)]); v }));
        shapes.push(("many-end-tags".into(), b"</x>".repeat(sz(50_000))));
        shapes.push(("lt-flood".into(), vec![b'<'; sz(200_000)]));
        shapes.push(("script-escapes".into(), { let mut v = b"<script>".to_vec(); v.extend(b"<!--<script></script>-->".repeat(sz(10_000))); v }));
        shapes.push(("cdata-flood".into(), { let mut v = b"<svg>".to_vec(); v.extend(b"<![CDATA[]]]]>".repeat(sz(20_000))); v }));
        shapes.push(("high-bytes".into(), (0..(sz(300_000))).map(|i| 0x80 + (i % 0x80) as u8).collect()));
        shapes.push(("many-valueless-attrs".into(), { let mut v = b"<div".to_vec(); for _ in 0..(sz(150_000)) { v.extend_from_slice(b" a"); } v.push(b'>'); v }));
        shapes.push(("many-empty-value-attrs".into(), { let mut v = b"<div".to_vec(); for _ in 0..(sz(60_000)) { v.extend_from_slice(b" a= b=''"); } v.push(b'>'); v }));
        shapes.push(("slash-flood-in-tag".into(), { let mut v = b"<a ".to_vec(); v.extend(vec![b'/'; sz(200_000)]); v.push(b'>'); v }));
        shapes.push(("doctype-long".into(), { let mut v = b"<!DOCTYPE ".to_vec(); v.extend(vec![b'h'; sz(200_000)]); v.extend_from_slice(b" PUBLIC \""); v.extend(vec![b'p'; sz(100_000)]); v.extend_from_slice(b"\">"); v }));
        shapes.push(("nested-foreign".into(), b"<svg><math><mi><svg><foreignObject>".repeat(sz(4_000))));
        shapes.push(("many-selectors-deep".into(), b"<div class=c><a href=x>".repeat(sz(10_000))));
        shapes
    };
    let scale = if stack_only { 0.5 } else if quick { 1.0 } else { 4.0 };
    let shapes = build_shapes(scale);
    let shapes_half = build_shapes(scale / 2.0);
    if only.is_none() {
        // one child process per shape
        let exe = std::env::current_exe().unwrap();
        for (si, (name, _)) in shapes.iter().enumerate() {
            let st = std::process::Command::new(&exe).args(["gen-c15-shape", tier, &seed.to_string(), out_dir, &si.to_string()])
                .stdout(std::process::Stdio::null()).stderr(std::process::Stdio::null()).status();
            // the same shape once more in the unoptimised build (target/stackcheck/lh, built by bin/check for C15)
            let exe_k = exe.parent().and_then(|p| p.parent()).map(|p| p.join("stackcheck").join("lh"));
            let st_k = match &exe_k { Some(k) if k.exists() => Some(std::process::Command::new(k).args(["gen-c15-shape", tier, &seed.to_string(), out_dir, &si.to_string(), "stack"])
                .stdout(std::process::Stdio::null()).stderr(std::process::Stdio::null()).status()), _ => None };
            if st_k.is_none() && std::env::var("VERIF_ALLOW_NO_STACKCHECK").is_err() { eprintln!("target/stackcheck/lh is missing: cargo build --profile stackcheck"); std::process::exit(2); }
            let ok_k = match &st_k { Some(Ok(s)) => s.success(), Some(Err(_)) => false, None => true };
            if !ok_k {
                if let Ok(rd) = std::fs::read_dir(out_dir) { for f in rd.flatten() { if f.file_name().to_string_lossy().starts_with(&format!("c15k{si}-")) { let _ = std::fs::remove_file(f.path()); } } }
                let how = match &st_k { Some(Ok(s)) => format!("{s}"), Some(Err(e)) => format!("{e}"), None => String::new() };
                let rec = json!({"id": format!("c15-shape-died-unoptimised-{name}"), "cfg": proto_cfg(&json!({}), vec![], &["C15"]), "hasref": false, "ref": [],
                    "tl": [{"e":"call","op":"new"},{"e":"enc"},{"e":"ret","res":"ok"},{"e":"call","op":"write","b":[]},{"e":"ret","res":"panic"}]});
                sh.push(&rec, &json!({"id": rec["id"], "shape": name, "process": how, "note": "the unoptimised child process running this shape at half size did not exit normally (1 MiB thread stack)"}), None, true);
            }
            let ok = matches!(&st, Ok(s) if s.success());
            if !ok {
                // the child died (stack exhaustion, abort, ...): drop its partial files, record the event
                if let Ok(rd) = std::fs::read_dir(out_dir) { for f in rd.flatten() { if f.file_name().to_string_lossy().starts_with(&format!("c15s{si}-")) { let _ = std::fs::remove_file(f.path()); } } }
                let how = match &st { Ok(s) => format!("{s}"), Err(e) => format!("{e}") };
                let rec = json!({"id": format!("c15-shape-died-{name}"), "cfg": proto_cfg(&json!({}), vec![], &["C15"]), "hasref": false, "ref": [],
                    "tl": [{"e":"call","op":"new"},{"e":"enc"},{"e":"ret","res":"ok"},{"e":"call","op":"write","b":[]},{"e":"ret","res":"panic"}]});
                sh.push(&rec, &json!({"id": rec["id"], "shape": name, "process": how, "note": "the child process running this shape did not exit normally (1 MiB thread stack)"}), None, true);
            }
            big_runs += 1;
        }
    }
    let big_cfgs = [json!({}), json!({"elem":[{"sel":"*","element":[],"text":[],"comments":[]}],"doc":[{"text":[],"comments":[],"end":[]}]}),
        json!({"elem":[{"sel":"div div div a","element":[{"op":"append","a":["x"]}]},{"sel":"a > b:nth-child(2)","element":[]},{"sel":"*:not(p)","text":[]}]}),
        json!({"elem":[{"sel":"*","element":[{"op":"remove"}]}]})];
    for (sidx, (name, input)) in shapes.iter().enumerate() {
        if only != Some(sidx) { continue; }
        for (ci, bc) in big_cfgs.iter().enumerate() {
            if stack_only && ci != 1 { continue; }
            let enc = if ci == 1 { "shift_jis" } else { "utf-8" };
            let cfg = gen::merge(bc, &json!({"strict": false, "enc": enc, "light": true}));
            for cuts in [vec![], vec![input.len() / 3, input.len() / 2], (1..8).map(|i| i * 4096).filter(|&c| c < input.len()).collect::<Vec<_>>()] {
                if stack_only && !cuts.is_empty() { continue; }
                let dt = emit(&mut sh, &cfg, input, &cuts, &mut n, false);
                big_runs += 1;
                if stack_only { continue; }
                let us_per_kb = dt * 1e6 / ((input.len() as f64) / 1024.0);
                if us_per_kb > max_us_per_kb { max_us_per_kb = us_per_kb; }
                // "work stays proportional to input size", decided without a wall-clock threshold (which depends on the
                // load of the machine): thread CPU time of the shape against the same shape built at half the size.  Linear work gives a
                // ratio of 2, quadratic work 4.  Only runs long enough to measure are compared, and an excess has to be
                // reproduced three times before it is reported.
                // measured in "bare" runs (nothing recorded, no byte copies: the cost is the library's), and only when
                // both runs are long enough for the clock; an excess must show three times and again one size up
                let measure = |inp: &[u8], cs: &[usize]| -> f64 {
                    let t = cpu_now();
                    let _ = driver::run(&cfg, inp, cs, &RunOpts { bare: true, ..RunOpts::default() });
                    cpu_now() - t
                };
                let half = &shapes_half[sidx].1[..];
                let hc: Vec<usize> = cuts.iter().map(|&c| c / 2).filter(|&c| c > 0 && c < half.len()).collect();
                let tf0 = measure(input, &cuts);
                let th0 = measure(half, &hc);
                if tf0 > 0.008 && th0 > 0.002 {
                    let mut ratio = tf0 / th0;
                    for _ in 0..2 {
                        if ratio <= 3.5 { break; }
                        let th = measure(half, &hc).max(1e-6);
                        let tf = measure(input, &cuts);
                        ratio = ratio.min(tf / th);
                    }
                    if ratio > 3.5 {
                        // one size up: the same excess has to be there between the shape and its double
                        let dbl = build_shapes(scale * 2.0);
                        let dc: Vec<usize> = cuts.iter().map(|&c| c * 2).filter(|&c| c < dbl[sidx].1.len()).collect();
                        let mut r2 = f64::INFINITY;
                        for _ in 0..2 { let tf = measure(input, &cuts).max(1e-6); let td = measure(&dbl[sidx].1, &dc); r2 = r2.min(td / tf); }
                        ratio = ratio.min(r2);
                    }
                    growth_checks += 1;
                    if ratio > max_ratio { max_ratio = ratio; }
                    if ratio > 3.5 {
                        let rec = json!({"id": format!("c15-superlinear-{name}-{ci}"), "cfg": proto_cfg(&cfg, vec![], &["C15"]), "hasref": false, "ref": [],
                            "tl": [{"e":"call","op":"new"},{"e":"enc"},{"e":"ret","res":"ok"},{"e":"call","op":"write","b":[]},{"e":"ret","res":"panic"}]});
                        sh.push(&rec, &json!({"id": rec["id"], "superlinear_shape": name, "cpu_ratio_full_over_half": ratio, "cpu_us_per_kb": us_per_kb}), None, true);
                    }
                }
            }
        }
    }
    // (3) with a memory limit the same shapes must fail cleanly, not panic
    for (sidx, (_name, input)) in shapes.iter().enumerate() {
        if only != Some(sidx) || stack_only { continue; }
        let cfg = json!({"strict": false, "elem":[{"sel":"*","element":[],"text":[]}], "mem": {"max": 4096, "prealloc": 1024, "graceful": true}});
        emit(&mut sh, &cfg, input, &[input.len() / 2], &mut n, false);
        big_runs += 1;
    }
    if only.is_some() {
        sh.finish(json!({"pathological_runs": big_runs, "max_cpu_us_per_KiB": max_us_per_kb, "growth_checks": growth_checks, "max_cpu_ratio_full_over_half": max_ratio}));
        return;
    }
    sh.finish(json!({"rule": "random bytes, balanced documents, fragment sequences, mutated fragment sequences, punctuation floods x 20 handler sets x all 36 encodings x strict/esi/meta-charset/memory/graceful/failure-injection settings x random cuts (bytes judged); 19 pathological shapes (25k-100k-deep nesting, 1-4 MB tokens, 10^5 attributes with / without values, floods), each in its own child process on a 1 MiB thread stack, x 4 handler configurations x 3 schedules judged on lengths against the stream-level contract, and, for every run above 0.1 s of CPU, on growth (thread CPU time of the shape over the same shape at half the size must stay below 3.5; linear = 2, quadratic = 4; re-measured three times). Every call runs under catch_unwind in a build with debug assertions and overflow checks; a panic is an event the contract rejects. Non-trivial: every run.",
        "pathological_runs": big_runs, "max_cpu_us_per_KiB": max_us_per_kb, "growth_checks": growth_checks, "max_cpu_ratio_full_over_half": max_ratio}));
}

/// CPU time consumed by the calling thread, in seconds (independent of the load on the machine).
pub fn cpu_now() -> f64 {
    let mut ts = libc::timespec { tv_sec: 0, tv_nsec: 0 };
    unsafe { libc::clock_gettime(libc::CLOCK_THREAD_CPUTIME_ID, &mut ts); }
    ts.tv_sec as f64 + ts.tv_nsec as f64 * 1e-9
}

pub fn replay(job: &str, src: &Value, out_dir: &str) {
    let input: Vec<u8> = src["input"].as_array().map(|a| a.iter().map(|x| x.as_u64().unwrap() as u8).collect()).unwrap_or_default();
    let cuts: Vec<usize> = src["cuts"].as_array().map(|a| a.iter().map(|x| x.as_u64().unwrap() as usize).collect()).unwrap_or_default();
    let cfg = &src["cfg"];
    let opts = RunOpts { poke_after_error: src.get("poke").and_then(|x| x.as_bool()).unwrap_or(false), ..RunOpts::default() };
    let mut sh = Shards::new(out_dir, job, 50_000_000);
    // reference (failure-free, unlimited memory) run for the prefix clause
    let mut clean = cfg.clone();
    if let Some(o) = clean.as_object_mut() { o.remove("fail_at"); o.remove("mem"); }
    let reference = sink_bytes(&driver::run(&clean, &input, &cuts, &RunOpts::default()));
    let tl = driver::run(cfg, &input, &cuts, &opts);
    let needs_ref = cfg.get("fail_at").is_some() || cfg.get("mem").and_then(|m| m.get("max")).is_some();
    let clauses: Vec<&str> = match job { "c01" => vec!["C01"], "c12" => vec!["C12"], "c15" => vec!["C15"], "c10" => vec!["C10"], "c11" => vec!["C11"], _ => vec!["C12"] };
    let rec = record("replay", cfg, &input, &tl, if needs_ref { Some(&reference) } else { None }, &clauses);
    sh.push(&rec, src, None, true);
    sh.finish(json!({}));
}

/// Replay of behaviours printed by TLC from the implementation-shaped model spec/Stream.tla (MC_Stream):
/// the model's document is rendered, the model's chunking / failure index / limit / flags are applied to
/// the real rewriter, and the real timeline is judged against the L0 contract like any other run.
/// The model's predicted final result and output length are compared as a SPEC-DRIFT diagnostic only.
pub fn job_c12r(out_dir: &str, tier: &str, _seed: u64) {
    let quick = tier == "quick";
    let mut sh = Shards::new(out_dir, "c12r", 6_000_000);
    let path = std::env::var("VERIF_REPLAY_FILE").unwrap_or_default();
    let text = std::fs::read_to_string(&path).unwrap_or_default();
    let lines: Vec<&str> = text.lines().collect();
    let stride = if quick { (lines.len() / 6000).max(1) } else { (lines.len() / 60000).max(1) };
    let mut n = 0usize; let mut drift = 0usize; let mut drift_samples: Vec<Value> = Vec::new();
    for (li, line) in lines.iter().enumerate() {
        if li % stride != 0 { continue; }
        let b: Value = match serde_json::from_str(line) { Ok(v) => v, Err(_) => continue };
        // render the document
        let mut input = Vec::new();
        for (k, lx) in b["doc"].as_array().unwrap().iter().enumerate() {
            let len = lx["len"].as_u64().unwrap() as usize;
            match lx["kind"].as_str().unwrap() {
                "text" => for j in 0..len { input.push(b'a' + ((k + j) % 26) as u8); },
                "open" => input.extend_from_slice(b"<a>"),
                "close" => input.extend_from_slice(b"</a>"),
                _ => input.extend_from_slice(b"<br>"),
            }
        }
        let mut cuts: Vec<usize> = b["cuts"].as_array().unwrap().iter().map(|x| x.as_u64().unwrap() as usize).collect();
        // the last write of a complete behaviour ends at the end of the document; cuts are the ends of the earlier ones
        if cuts.last() == Some(&input.len()) { cuts.pop(); } else if b["phase"] == "ended" { continue; }
        let nb = b["nbail"].as_u64().unwrap() as usize;
        let bail: Vec<Value> = (0..nb).map(|_| json!([{"op":"append","a":["!"]}])).collect();
        let mut cfg = json!({"strict": false, "enc": "utf-8",
            "elem": [{"sel":"*","element":[{"op":"on_end_tag","a":[[]]}]}], "doc": [{"text":[],"end":[]}],
            "gh": b["ghandler"], "bail": bail});
        let max = b["max"].as_i64().unwrap();
        let mut mem = json!({"prealloc": b["prealloc"], "graceful": b["gmem"]});
        if max >= 0 { mem["max"] = json!(max); }
        cfg["mem"] = mem;
        let fa = b["failAt"].as_u64().unwrap();
        if fa > 0 { cfg["fail_at"] = json!(fa); }
        let opts = RunOpts { poke_after_error: true, ..RunOpts::default() };
        let tl = driver::run(&cfg, &input, &cuts, &opts);
        n += 1;
        let rec = record(&format!("c12r-{n}"), &cfg, &input, &tl, None, &["C01", "C10", "C11", "C12", "C15"]);
        // diagnostic: does the implementation-shaped model predict the final result?
        let real_res = tl.iter().filter(|e| e["e"] == "ret" && e.get("poke").is_none()).last().map(|e| e["res"].as_str().unwrap_or("").to_string()).unwrap_or_default();
        let model_res = { let r = b["res"].as_str().unwrap_or(""); if r.is_empty() { "ok".to_string() } else { r.to_string() } };
        if real_res != model_res {
            drift += 1;
            if drift_samples.len() < 5 { drift_samples.push(json!({"behaviour": b, "real": real_res})); }
        }
        let src = json!({"id": rec["id"], "cfg": cfg, "input": input, "cuts": cuts, "poke": true});
        sh.push(&rec, &src, None, true);
    }
    sh.finish(json!({"rule": "behaviours of the implementation-shaped model spec/Stream.tla (every chunking x failure at every handler invocation index x memory limits around the real thresholds x graceful flags x bail-out handlers), printed by TLC one per distinct final state, rendered to HTML (text = letters, open = <a>, close = </a>, other = <br>) and executed on the real rewriter with observers on every token; judged against the L0 contract StreamProto.",
        "model_behaviours_available": lines.len(), "spec_drift_final_result": drift, "spec_drift_samples": drift_samples}));
}
