//! C08 job: adversarial strings through every text-inserting / validating API; input and output bytes go
//! to spec/TraceSafe.tla, which re-tokenizes both with the reference tokenizer.
use crate::driver::{self, RunOpts};
use crate::gen::Rng;
use crate::out::Shards;
use crate::props::stream::sink_bytes;
use serde_json::{json, Value};

const SYMS: &[&str] = &["<", ">", "&", "\"", "'", "-", "!", "/", "=", " ", "a", ";"];
const SPECIALS: &[&str] = &["-->", "--!>", "</script>", "</title>", "</textarea>", "<!--", "]]>", "&lt;", "&amp;", "é", "<script>", "-", "->", ">", "--", "x-->y", "a--!>b", "<!-->", "\n", "\t", "</div>", "<a href=\"x\">", "\u{0}", "日本", "😀", "&#60;", "--!", "- ->", "<![CDATA[", "?>"];

struct Base { html: &'static str, target: &'static str, inner_textctx: bool }
const BASES: &[Base] = &[
    Base { html: "<div id=a class=\"c\">x</div><!--c--><p>y</p>", target: "div", inner_textctx: true },
    Base { html: "<title>t</title><b>z</b><!--c-->", target: "title", inner_textctx: true },
    Base { html: "<script>s</script><i>z</i><!--c-->", target: "script", inner_textctx: false },
    Base { html: "<svg><g x=1>t</g></svg><u>w</u><!--c-->", target: "g", inner_textctx: true },
    Base { html: "<textarea>a</textarea><style>b</style>x<!--c-->", target: "textarea", inner_textctx: true },
    Base { html: "<a href='u' HREF=v>l</a><br><!--c-->", target: "a", inner_textctx: true },
    // self-closing foreign elements whose last attribute is unquoted and ends in a quote character
    Base { html: "<svg><path id=\"q\" class=k d=M0,0' /><rect x=1 y=6\" /></svg><u>w</u><!--c-->", target: "path", inner_textctx: false },
    Base { html: "<math><mspace id=m href=a\"b' /><mi x=\"1\" data-x=v />t</math><!--c-->", target: "mspace", inner_textctx: false },
];

/// a fixed small pool of adversarial argument strings (used by the robustness job)
pub fn strings_small() -> Vec<String> {
    let mut v: Vec<String> = SPECIALS.iter().map(|s| s.to_string()).collect();
    for a in SYMS { v.push(a.to_string()); }
    v.extend(["", "x", "data-x", "a b", "é", "\u{10FFFF}", "𝒳", "a\u{0}b"].iter().map(|s| s.to_string()));
    v.push("y".repeat(5000));
    v
}

pub fn strings(rng: &mut Rng, quick: bool) -> Vec<String> {
    let mut v: Vec<String> = Vec::new();
    for a in SYMS { v.push(a.to_string()); for b in SYMS { v.push(format!("{a}{b}")); for c in SYMS { v.push(format!("{a}{b}{c}")); } } }
    for s in SPECIALS { v.push(s.to_string()); }
    for _ in 0..(if quick { 600 } else { 20000 }) {
        let mut s = String::new();
        for _ in 0..(2 + rng.below(7)) { if rng.chance(1, 3) { s.push_str(*rng.pick(SPECIALS)); } else { s.push_str(*rng.pick(SYMS)); } }
        v.push(s);
    }
    v
}

pub fn job_c08(out_dir: &str, tier: &str, seed: u64) {
    let quick = tier == "quick";
    let mut rng = Rng::new(seed ^ 0xC08);
    let mut sh = Shards::new(out_dir, "c08", 500_000);
    let strs = strings(&mut rng, quick);
    let mut n = 0usize;
    let mut rejected = 0usize;
    let per = if quick { 8 } else { 14 };
    for (si, s) in strs.iter().enumerate() {
        for k in 0..per {
            let base = &BASES[(si + k) % BASES.len()];
            let input = base.html.as_bytes();
            let kind = (si / 3 + k * 5) % 16;
            // (cfg, api, arg, arg2, textctx)
            let el = |ops: Value| json!({"elem":[{"sel": base.target, "element": ops}], "strict": false});
            let (cfg, api, arg, arg2, textctx): (Value, &str, String, String, bool) = match kind {
                0 => (el(json!([{"op":"before","a":[s, false]}])), "text", s.clone(), String::new(), true),
                1 => (el(json!([{"op":"after","a":[s, false]}])), "text", s.clone(), String::new(), true),
                2 => (el(json!([{"op":"prepend","a":[s, false]}])), "text", s.clone(), String::new(), base.inner_textctx),
                3 => (el(json!([{"op":"append","a":[s, false]}])), "text", s.clone(), String::new(), base.inner_textctx),
                4 => (json!({"doc":[{"comments":[{"op":"before","a":[s, false]}]}], "strict": false}), "text", s.clone(), String::new(), true),
                5 => (json!({"doc":[{"comments":[{"op":"after","a":[s, false]}]}], "strict": false}), "text", s.clone(), String::new(), true),
                6 => (json!({"doc":[{"end":[{"op":"append","a":[s, false]}]}], "strict": false}), "text", s.clone(), String::new(), true),
                7 => (el(json!([{"op":"on_end_tag","a":[[{"op":"before","a":[s, false]},]]}])), "text", s.clone(), String::new(), base.inner_textctx),
                8 => (el(json!([{"op":"s_append","a":[[s], false]}])), "text", s.clone(), String::new(), base.inner_textctx),
                9 | 10 => { let name = *rng.pick(&["data-x", "ID", "href", "class", "x"]); (el(json!([{"op":"set_attr","a":[name, s]}])), "set_attr", name.to_string(), s.clone(), true) }
                11 => (el(json!([{"op":"set_attr","a":[s, "v"]}])), "set_attr", s.clone(), "v".to_string(), true),
                12 | 13 => (json!({"doc":[{"comments":[{"op":"set_text","a":[s]}]}], "strict": false}), "set_text", s.clone(), String::new(), true),
                14 => (el(json!([{"op":"set_name","a":[s]}])), "set_name", s.clone(), String::new(), true),
                _ => { let name = format!("x{}", s.replace(|c: char| !c.is_ascii_alphanumeric() && c != '-', "")); (el(json!([{"op":"set_name","a":[name]}])), "set_name", name, String::new(), true) }
            };
            let enc = if k == per - 1 && si % 7 == 0 { "windows-1252" } else if k == per - 2 && si % 5 == 0 { *rng.pick(&["shift_jis", "windows-1251", "euc-kr"]) } else { "utf-8" };
            let cfg = crate::gen::merge(&cfg, &json!({"enc": enc}));
            let tl = driver::run(&cfg, input, &[], &RunOpts::default());
            // result of the validated call ("ok" / "err:..."); text insertions cannot be rejected
            let mut res = "ok".to_string();
            for e in &tl {
                if e["e"] == "ev" {
                    for op in e.get("ops").and_then(|x| x.as_array()).cloned().unwrap_or_default() {
                        if let Some(r) = op["r"].as_str() { if r.starts_with("err") { res = "err".into(); } }
                    }
                }
            }
            if tl.iter().any(|e| e["e"] == "ret" && e["res"] != "ok") {
                n += 1;
                let why = tl.iter().filter(|e| e["e"] == "ret" && e["res"] != "ok").map(|e| e["res"].as_str().unwrap_or("?").to_string()).next().unwrap_or_default();
                let rec = json!({"id": format!("c08-{n}"), "failed": why});
                sh.push(&rec, &json!({"id": rec["id"], "cfg": cfg, "input": input, "cuts": [], "api": api, "arg": arg, "arg2": arg2}), None, true);
                continue;
            }
            if res == "err" { rejected += 1; }
            // in a legacy encoding a non-ASCII argument is compared through a witnessed per-character encoder
            // (encoding_rs: the character's bytes, or its numeric character reference when unmappable); only the
            // text API is judged that way (C13 decides the encoding of names and values)
            let legacy_non_ascii = enc != "utf-8" && !(arg.is_ascii() && arg2.is_ascii());
            if legacy_non_ascii && res == "ok" && api != "text" { continue; }
            n += 1;
            let mut rec = json!({"id": format!("c08-{n}"), "input": input, "output": sink_bytes(&tl), "api": api, "target": base.target.as_bytes(),
                "arg": arg.as_bytes(), "arg2": arg2.as_bytes(), "res": res, "textctx": textctx});
            if legacy_non_ascii && api == "text" {
                let e = encoding_rs::Encoding::for_label(enc.as_bytes()).unwrap();
                let mut cmap = Vec::new();
                let mut seen = std::collections::HashSet::new();
                for ch in arg.chars() { if seen.insert(ch) { let chs = ch.to_string(); let (b, _, _) = e.encode(&chs); cmap.push(json!([ch as u32, b.as_ref()])); } }
                rec["argcp"] = json!(arg.chars().map(|c| c as u32).collect::<Vec<_>>());
                rec["cmap"] = json!(cmap);
            }
            let src = json!({"id": rec["id"], "cfg": cfg, "input": input, "cuts": [], "api": api, "arg": arg, "arg2": arg2});
            let key = format!("{}|{}|{}|{}|{}", rec["input"], rec["output"], rec["api"], rec["arg"], rec["arg2"]);
            sh.push(&rec, &src, Some(&key), true);
        }
    }
    sh.finish(json!({"rule": "strings: all strings of length <= 3 over 12 symbols (< > & \" ' - ! / = space a ;) = 1884, 30 special sequences (comment / tag / CDATA terminators, entities, NUL, non-BMP), seeded concatenations; each string goes through a rotating subset of 16 API uses (element before / after / prepend / append, comment before / after, document-end append, end-tag before, streaming append -- all with ContentType::Text; set_attribute value; set_attribute name; Comment::set_text; set_tag_name) on 6 base documents (div, title (RCDATA), script, svg g, textarea, a with duplicate attribute). Distinct = distinct (input, output, api, arguments).",
        "rejected_arguments": rejected}));
}
