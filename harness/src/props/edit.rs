//! C07 job: documents x random operation scripts; the observed operations and the sink go to
//! spec/TraceEdit.tla, whose reference editor (spec/Edit.tla) computes the documented output.
use crate::driver::{self, RunOpts};
use crate::gen::Rng;
use crate::out::Shards;
use crate::props::scope;
use serde_json::{json, Value};

const CONTENTS: &[&str] = &["[A]", "[B]", "<i>x</i>", "a&b", "<", "", "T>", "[C]"];

fn content_op(rng: &mut Rng, name: &str) -> Value {
    json!({"op": name, "a": [*rng.pick(CONTENTS), rng.chance(2, 3)]})
}

fn el_script(rng: &mut Rng) -> Vec<Value> {
    let mut ops = Vec::new();
    for _ in 0..(1 + rng.below(3)) {
        ops.push(match rng.below(14) {
            0 | 1 => content_op(rng, "before"),
            2 | 3 => content_op(rng, "after"),
            4 | 5 => content_op(rng, "prepend"),
            6 | 7 => content_op(rng, "append"),
            8 => content_op(rng, "set_inner"),
            9 => content_op(rng, "replace"),
            10 => json!({"op":"remove"}),
            11 => json!({"op":"remove_keep"}),
            12 => if rng.chance(1, 2) { json!({"op":"set_attr","a":[*rng.pick(&["x", "class", "new", "ID"]), *rng.pick(&["v", "a\"b", "", "p q"])]}) } else { json!({"op":"rm_attr","a":[*rng.pick(&["x", "class", "id", "nope"])]}) },
            _ => json!({"op":"set_name","a":[*rng.pick(&["b", "section", "X-Y"])]}),
        });
    }
    // every element handler registers an end-tag handler (0-2 operations on the end tag)
    let mut et = Vec::new();
    for _ in 0..rng.below(3) {
        et.push(match rng.below(6) { 0 | 1 => content_op(rng, "before"), 2 | 3 => content_op(rng, "after"), 4 => if rng.chance(1, 2) { content_op(rng, "replace") } else { json!({"op":"remove"}) }, _ => json!({"op":"set_name","a":[*rng.pick(&["b", "em"])]}) });
    }
    ops.push(json!({"op":"on_end_tag","a":[et]}));
    ops
}

fn tok_script(rng: &mut Rng, kind: &str) -> Vec<Value> {
    let mut ops = Vec::new();
    for _ in 0..(1 + rng.below(2)) {
        let mut op = match rng.below(7) {
            0 | 1 => content_op(rng, "before"),
            2 | 3 => content_op(rng, "after"),
            4 => content_op(rng, "replace"),
            5 => json!({"op":"remove"}),
            _ => if kind == "cm" { json!({"op":"set_text","a":[*rng.pick(&["zz", "", "a-b", "x--y"])]}) } else { json!({"op":"set_str","a":[*rng.pick(&["S", "", "&lt;"])]}) },
        };
        if kind == "tx" {
            // a text edit is applied either to every chunk or only to the chunk flagged last
            if rng.chance(1, 2) { op["last"] = json!(true); }
        }
        ops.push(op);
    }
    ops
}

fn bytes_of(v: Option<&Value>) -> Vec<u8> { v.and_then(|x| x.as_str()).map(|s| s.as_bytes().to_vec()).unwrap_or_default() }

fn conv_ops(ops: Option<&Value>) -> Vec<Value> {
    let mut out = Vec::new();
    for op in ops.and_then(|x| x.as_array()).cloned().unwrap_or_default() {
        let name = op["op"].as_str().unwrap_or("");
        if matches!(name, "on_end_tag" | "get_attr" | "has_attr") { continue; }
        let a = op["a"].as_array().cloned().unwrap_or_default();
        let is_name_op = matches!(name, "set_attr" | "rm_attr" | "set_name");
        let ok = op["r"] == "ok";
        out.push(json!({"op": name,
            "c": if is_name_op && name != "set_name" { vec![] } else { bytes_of(a.first()) },
            "html": a.get(1).and_then(|x| x.as_bool()).unwrap_or(true),
            "n": if is_name_op { bytes_of(a.first()) } else { vec![] },
            "v": if name == "set_attr" { bytes_of(a.get(1)) } else { vec![] },
            "ok": ok}));
    }
    out
}

/// captured tokens in document order with the operations performed on them (merged across handlers)
fn tokens(tl: &[Value], ranges: &[(usize, usize)], items: &[Value]) -> (Vec<Value>, Vec<Value>, String, Vec<u8>) {
    let mut toks: Vec<Value> = Vec::new();
    let mut endops: Vec<Value> = Vec::new();
    let mut res = "ok".to_string();
    let mut sink = Vec::new();
    for e in tl {
        match e["e"].as_str().unwrap_or("") {
            "chunk" => sink.extend(e["b"].as_array().unwrap().iter().map(|x| x.as_u64().unwrap() as u8)),
            "ret" => if e["res"] != "ok" { res = e["res"].as_str().unwrap().to_string(); },
            "new" => res = "err:cfg".into(),
            "ev" => {
                let k = e["k"].as_str().unwrap();
                if k == "de" { endops.extend(conv_ops(e.get("ops"))); continue; }
                if k == "bo" { continue; }
                let s = e["loc"][0].as_u64().unwrap() as usize;
                let en = e["loc"][1].as_u64().unwrap() as usize;
                let item = if k == "tx" {
                    ranges.iter().enumerate().position(|(i, &(a, z))| items[i]["k"] == "tx" && a <= s && en <= z).map(|p| p + 1).unwrap_or(0)
                } else { ranges.iter().position(|&(a, z)| a == s && z == en).map(|p| p + 1).unwrap_or(0) };
                let ops = conv_ops(e.get("ops"));
                if let Some(last) = toks.last_mut() {
                    if last["item"] == json!(item) && last["s"] == json!(s) && last["e"] == json!(en) && !(k == "tx" && s == en && last["k"] != json!("tx-empty")) {
                        last["ops"].as_array_mut().unwrap().extend(ops);
                        continue;
                    }
                }
                toks.push(json!({"item": item, "s": s, "e": en, "ops": ops, "k": if k == "tx" && s == en { "tx-empty" } else { k }}));
            }
            _ => {}
        }
    }
    (toks, endops, res, sink)
}

pub fn job_c07(out_dir: &str, tier: &str, seed: u64) {
    let quick = tier == "quick";
    let mut rng = Rng::new(seed ^ 0xC07);
    let mut sh = Shards::new(out_dir, "c07", 400_000);
    let ncases = if quick { 9000 } else { 100000 };
    let mut n = 0usize;
    for _ in 0..ncases {
        let (mut items, html, ranges) = scope::gen_doc(&mut rng, 10);
        for (i, it) in items.iter_mut().enumerate() { it["s"] = json!(ranges[i].0); it["e"] = json!(ranges[i].1); }
        let ptl = driver::run(&json!({"elem":[{"sel":"*","element":[]}],"strict":false}), &html, &[], &RunOpts::default());
        for e in &ptl {
            if e["e"] == "ev" && e["k"] == "el" {
                let s = e["loc"][0].as_u64().unwrap() as usize;
                if let Some(p) = ranges.iter().position(|&(a, _)| a == s) {
                    items[p]["ns"] = json!(match e["ns"].as_str().unwrap_or("") { "http://www.w3.org/2000/svg" => "svg", "http://www.w3.org/1998/Math/MathML" => "mathml", _ => "html" });
                }
            }
        }
        // handlers: 1-2 element handlers on simple selectors, optional text / comment / doctype / end handlers
        let mut elem_cfg = Vec::new();
        for _ in 0..(1 + rng.below(2)) {
            let sel = *rng.pick(&["*", "a", "b", "div", "p", "span", "div > *", "p *", "br, img", "svg *", "title", "[x]", ".p"]);
            let mut c = json!({"sel": sel, "element": el_script(&mut rng)});
            if rng.chance(1, 4) { c["text"] = json!(tok_script(&mut rng, "tx")); }
            if rng.chance(1, 4) { c["comments"] = json!(tok_script(&mut rng, "cm")); }
            elem_cfg.push(c);
        }
        let mut doc_cfg = json!({});
        if rng.chance(1, 3) { doc_cfg["text"] = json!(tok_script(&mut rng, "tx")); }
        if rng.chance(1, 3) { doc_cfg["comments"] = json!(tok_script(&mut rng, "cm")); }
        if rng.chance(1, 4) { doc_cfg["doctype"] = json!([{"op":"remove"}]); }
        if rng.chance(1, 3) { doc_cfg["end"] = json!([content_op(&mut rng, "append"), content_op(&mut rng, "append")]); }
        let cfg = json!({"elem": elem_cfg, "doc": [doc_cfg], "strict": false});
        // the operations are read from the single-write run; chunked runs must produce the same bytes when
        // the text edits do not depend on fragmentation (judged as further observations of the same record)
        let tl = driver::run(&cfg, &html, &[], &RunOpts::default());
        let (toks, endops, res, sink) = tokens(&tl, &ranges, &items);
        if toks.iter().any(|t| t["item"] == json!(0)) { continue; }
        let toks: Vec<Value> = toks.into_iter().map(|mut t| { t.as_object_mut().unwrap().remove("k"); t }).collect();
        let obs = vec![json!({"variant":"single","res":res,"sink":sink})];
        n += 1;
        let rec = json!({"id": format!("c07-{n}"), "input": html, "doc": items, "toks": toks, "endops": endops, "obs": obs});
        let src = json!({"id": rec["id"], "cfg": cfg, "html": String::from_utf8_lossy(&html), "input": html, "cuts": []});
        sh.push(&rec, &src, None, true);
    }
    // legacy encodings whose trail bytes are in the ASCII range, every single cut (in particular between a lead and a
    // trail byte), a text handler that changes nothing and element edits: the chunked runs must produce the same bytes
    let mk = |parts: &[(&str, &[u8])]| -> (Vec<Value>, Vec<u8>, Vec<(usize, usize)>) {
        let mut items = Vec::new(); let mut html = Vec::new(); let mut ranges = Vec::new();
        for (k, bytes) in parts {
            let s0 = html.len(); html.extend_from_slice(bytes); ranges.push((s0, html.len()));
            let name: Vec<u8> = bytes.iter().cloned().filter(|c| c.is_ascii_alphabetic()).collect();
            items.push(match *k { "st" => json!({"k":"st","n":name,"attrs":[],"sc":false,"ns":"html","s":s0,"e":html.len()}),
                                  "et" => json!({"k":"et","n":name,"s":s0,"e":html.len()}),
                                  _ => json!({"k":"tx","s":s0,"e":html.len()}) });
        }
        (items, html, ranges)
    };
    let legacy: Vec<(&str, Vec<(&str, &[u8])>)> = vec![
        ("shift_jis", vec![("st", b"<div>"), ("tx", b"abc\x83\x41xyz"), ("et", b"</div>"), ("st", b"<p>"), ("tx", b"\x93\xfa\x96\x7b"), ("et", b"</p>")]),
        ("gbk", vec![("st", b"<a>"), ("tx", b"q\xd6\xd0\x81\x40x"), ("et", b"</a>")]),
        ("big5", vec![("st", b"<b>"), ("tx", b"\xa4\x40\xa4\x41z"), ("et", b"</b>"), ("tx", b"t\xa4\x5c")]),
        ("euc-kr", vec![("st", b"<i>"), ("tx", b"k\xb0\xa1\xb0\xa2"), ("et", b"</i>")]),
    ];
    for (enc, parts) in &legacy {
        let (items, html, ranges) = mk(parts);
        // (every element handler registers an end-tag handler, so that the end tags are captured tokens)
        for (vi, elops) in [json!([{"op":"on_end_tag","a":[[]]}]), json!([{"op":"append","a":["[x]"]},{"op":"on_end_tag","a":[[]]}]),
                            json!([{"op":"before","a":["[b]"]},{"op":"after","a":["[a]"]},{"op":"on_end_tag","a":[[]]}])].iter().enumerate() {
            let cfg = json!({"elem": [{"sel": "*", "element": elops, "text": []}], "doc": [{"text": []}], "strict": false, "enc": enc});
            let tl = driver::run(&cfg, &html, &[], &RunOpts::default());
            let (toks, endops, res, sink) = tokens(&tl, &ranges, &items);
            if toks.iter().any(|t| t["item"] == json!(0)) { continue; }
            let toks: Vec<Value> = toks.into_iter().map(|mut t| { t.as_object_mut().unwrap().remove("k"); t }).collect();
            let mut obs = vec![json!({"variant":"single","res":res,"sink":sink})];
            let mut seen = std::collections::HashSet::new();
            for c in 1..html.len() {
                let tl2 = driver::run(&cfg, &html, &[c], &RunOpts::default());
                let res2 = tl2.iter().filter(|e| e["e"] == "ret" && e["res"] != "ok").map(|e| e["res"].as_str().unwrap_or("?").to_string()).next().unwrap_or("ok".to_string());
                let sink2 = crate::props::stream::sink_bytes(&tl2);
                if seen.insert((res2.clone(), sink2.clone())) { obs.push(json!({"variant": format!("cut{c}"), "res": res2, "sink": sink2})); }
            }
            n += 1;
            let rec = json!({"id": format!("c07-{n}"), "input": html, "doc": items, "toks": toks, "endops": endops, "obs": obs});
            let src = json!({"id": rec["id"], "cfg": cfg, "input": html, "cuts": [], "legacy": enc, "variant": vi});
            sh.push(&rec, &src, None, true);
        }
    }
    sh.finish(json!({"rule": "seeded documents (<= 10 items: tags over 12 names incl. voids / svg island / title, self-closing syntax, mis-nesting, ancestor-closing and stray end tags, unclosed elements, comments, text, doctype) x 1-2 element handlers (13 selectors) running random scripts of 1-3 operations (before / after / prepend / append / set_inner_content / replace / remove / remove_and_keep_content / set_attribute / remove_attribute / set_tag_name, both content types, 8 content strings incl. empty) plus an end-tag handler with 0-2 operations, optional text / comment / doctype / document-end scripts; several handlers may edit the same token. Every case is distinct by construction."}));
}
