//! C04 job: (selector set, document) pairs from a bounded grammar; the selector ASTs and the tag list go
//! to TLC (spec/Selectors.tla decides which start tags match); this file only generates, renders
//! (injective printers) and records which handler ran for which start tag.
use crate::driver::{self, RunOpts};
use crate::gen::Rng;
use crate::out::Shards;
use serde_json::{json, Value};

// (13-letter names: the tag-name hash holds 12 characters, and 13 when the first one is a-j)
const NAMES: &[&str] = &["a", "b", "div", "p", "br", "img", "verylongtagname12", "svg", "path", "g", "x-y", "H1",
    "foreignobject", "voreignobject", "kabcdefghijkl", "abcdefghijkl", "math", "mi"];
const ATTR_NAMES: &[&str] = &["x", "y", "data-z", "id", "class"];
const VALUES: &[&str] = &["", "p", "q", "p q", "P", "p-q", "pp", "qp", "p  q", "-p", "Pq", "x y z", "bar", "babar", "bbar", "aab", "aaab", "xAAAB", "ab", "abab", "a-b-c", " p", "q "];
const IDENTS: &[&str] = &["p", "q", "P", "pp", "p-q"];

fn b(s: &str) -> Vec<u8> { s.as_bytes().to_vec() }

fn css_str(v: &str) -> String {
    let mut s = String::from("\"");
    for c in v.chars() { if c == '"' || c == '\\' { s.push('\\'); } s.push(c); }
    s.push('"');
    s
}

fn gen_simple(rng: &mut Rng, depth: usize, allow_type: bool) -> Value {
    let k = rng.below(if depth > 0 { 10 } else { 9 });
    match k {
        0 if allow_type => json!({"t":"type","n":b(*rng.pick(NAMES))}),
        0 | 1 => json!({"t":"class","v":b(*rng.pick(IDENTS))}),
        2 => json!({"t":"id","v":b(*rng.pick(IDENTS))}),
        3 => json!({"t":"attr","n":b(*rng.pick(ATTR_NAMES)),"op":"","v":[],"cs":""}),
        4 | 5 | 6 => {
            let op = *rng.pick(&["=", "~=", "|=", "^=", "$=", "*="]);
            let cs = *rng.pick(&["", "", "i", "s"]);
            json!({"t":"attr","n":b(*rng.pick(&["x", "y", "data-z", "X"])),"op":op,"v":b(*rng.pick(VALUES)),"cs":cs})
        }
        7 | 8 => {
            let a = *rng.pick(&[0i64, 0, 1, 2, 3, -1, -2]);
            let bb = *rng.pick(&[0i64, 1, 1, 2, 3, -1, 4]);
            json!({"t":"nth","oftype":rng.chance(1, 2),"a":a,"b":bb})
        }
        _ => {
            let nargs = 1 + rng.below(2);
            let args: Vec<Value> = (0..nargs).map(|_| { let k = 1 + rng.below(2); gen_compound(rng, depth - 1, k) }).collect();
            json!({"t":"not","args":args})
        }
    }
}

fn gen_compound(rng: &mut Rng, depth: usize, n: usize) -> Value {
    let mut v: Vec<Value> = Vec::new();
    match rng.below(4) {
        0 => v.push(json!({"t":"univ"})),
        1 | 2 => v.push(json!({"t":"type","n":b(*rng.pick(NAMES))})),
        _ => {}
    }
    for _ in 0..n {
        if v.is_empty() || rng.chance(3, 4) { v.push(gen_simple(rng, depth, false)); }
    }
    if v.is_empty() { v.push(json!({"t":"univ"})); }
    Value::Array(v)
}

fn gen_complex(rng: &mut Rng) -> Value {
    let n = 1 + rng.below(3);
    let mut v = Vec::new();
    for i in 0..n {
        let comb = if i == 0 { "" } else if rng.chance(1, 2) { ">" } else { " " };
        let k = rng.below(3);
        v.push(json!({"comb": comb, "comp": gen_compound(rng, 2, k)}));
    }
    Value::Array(v)
}

pub fn gen_selector(rng: &mut Rng) -> Value {
    let n = if rng.chance(1, 5) { 2 } else { 1 };
    Value::Array((0..n).map(|_| gen_complex(rng)).collect())
}

fn s_of(v: &Value) -> String { String::from_utf8(v.as_array().unwrap().iter().map(|x| x.as_u64().unwrap() as u8).collect()).unwrap() }

fn render_simple(s: &Value) -> String {
    match s["t"].as_str().unwrap() {
        "type" => s_of(&s["n"]),
        "univ" => "*".into(),
        "id" => format!("#{}", s_of(&s["v"])),
        "class" => format!(".{}", s_of(&s["v"])),
        "attr" => {
            let op = s["op"].as_str().unwrap();
            if op.is_empty() { format!("[{}]", s_of(&s["n"])) } else {
                let cs = s["cs"].as_str().unwrap();
                format!("[{}{}{}{}]", s_of(&s["n"]), op, css_str(&s_of(&s["v"])), if cs.is_empty() { String::new() } else { format!(" {cs}") })
            }
        }
        "nth" => {
            let (a, bb) = (s["a"].as_i64().unwrap(), s["b"].as_i64().unwrap());
            let kind = if s["oftype"].as_bool().unwrap() { "of-type" } else { "child" };
            if a == 0 && bb == 1 { format!(":first-{kind}") } else { format!(":nth-{kind}({a}n{}{bb})", if bb >= 0 { "+" } else { "" }) }
        }
        "not" => format!(":not({})", s["args"].as_array().unwrap().iter().map(render_compound).collect::<Vec<_>>().join(", ")),
        _ => String::new(),
    }
}
fn render_compound(c: &Value) -> String { c.as_array().unwrap().iter().map(render_simple).collect::<Vec<_>>().join("") }
pub fn render_selector(sel: &Value) -> String {
    sel.as_array().unwrap().iter().map(|cx| {
        cx.as_array().unwrap().iter().map(|p| {
            let comb = match p["comb"].as_str().unwrap() { ">" => " > ", " " => " ", _ => "" };
            format!("{comb}{}", render_compound(&p["comp"]))
        }).collect::<Vec<_>>().join("")
    }).collect::<Vec<_>>().join(", ")
}

/// A document as a tag list plus its rendering and the byte offset of every tag.
pub fn gen_doc(rng: &mut Rng, max_tags: usize) -> (Vec<Value>, Vec<u8>, Vec<usize>) {
    let mut tags: Vec<Value> = Vec::new();
    let mut html: Vec<u8> = Vec::new();
    let mut offs: Vec<usize> = Vec::new();
    let mut open: Vec<&str> = Vec::new();
    let n = 1 + rng.below(max_tags);
    for _ in 0..n {
        let r = rng.below(10);
        if r < 6 {
            let name = *rng.pick(NAMES);
            let shown = if rng.chance(1, 6) { name.to_ascii_uppercase() } else { name.to_string() };
            let mut attrs: Vec<(String, String)> = Vec::new();
            for _ in 0..rng.below(3) {
                let an = *rng.pick(ATTR_NAMES);
                let an = if rng.chance(1, 6) { an.to_ascii_uppercase() } else { an.to_string() };
                attrs.push((an, rng.pick(VALUES).to_string()));
            }
            let sc = rng.chance(1, 6);
            offs.push(html.len());
            html.extend_from_slice(format!("<{shown}").as_bytes());
            for (an, av) in &attrs { html.extend_from_slice(format!(" {an}=\"{av}\"").as_bytes()); }
            html.extend_from_slice(if sc { b"/>" } else { b">" });
            tags.push(json!({"k":"st","n":b(&shown),"attrs":attrs.iter().map(|(a, v)| json!([b(a), b(v)])).collect::<Vec<_>>(),"sc":sc,"ns":"html"}));
            open.push(name);
        } else if r < 9 {
            // end tag: usually the innermost open element, sometimes an outer one or a stray name
            let name = if !open.is_empty() && rng.chance(3, 4) {
                let k = if rng.chance(2, 3) { open.len() - 1 } else { rng.below(open.len()) };
                let nm = open[k]; open.truncate(k); nm
            } else { *rng.pick(NAMES) };
            let shown = if rng.chance(1, 6) { name.to_ascii_uppercase() } else { name.to_string() };
            offs.push(html.len());
            html.extend_from_slice(format!("</{shown}>").as_bytes());
            tags.push(json!({"k":"et","n":b(&shown)}));
        } else {
            html.extend_from_slice(b"text ");
        }
    }
    (tags, html, offs)
}

fn invocations(tl: &[Value], offs: &[usize]) -> Vec<Value> {
    let mut v = Vec::new();
    for e in tl {
        if e["e"] == "ev" && e["k"] == "el" {
            let h = e["h"].as_str().unwrap();
            let sel: usize = h[1..].split('.').next().unwrap().parse().unwrap();
            let s = e["loc"][0].as_u64().unwrap() as usize;
            let tag = offs.iter().position(|&o| o == s).map(|p| p + 1).unwrap_or(0);
            v.push(json!([sel + 1, tag]));
        }
    }
    v
}

/// one attribute selector on a document that carries every value of the pool
fn attr_family(rng: &mut Rng, idx: usize) -> (Vec<Value>, Vec<Value>, Vec<u8>, Vec<usize>) {
    const OPS: &[&str] = &["=", "~=", "|=", "^=", "$=", "*="];
    const OPERANDS: &[&str] = &["", "p", "P", "q", "pp", "bar", "ab", "aab", "AAB", "a-b", "p q", "-p", "b"];
    let op = OPS[idx % OPS.len()];
    let cs = ["", "i", "s"][(idx / OPS.len()) % 3];
    let v = OPERANDS[(idx / (OPS.len() * 3)) % OPERANDS.len()];
    let mut comp = vec![json!({"t":"attr","n":b("x"),"op":op,"v":b(v),"cs":cs})];
    if rng.chance(1, 3) { comp.insert(0, json!({"t":"type","n":b("a")})); }
    let sel = if rng.chance(1, 4) { json!([[{"comb":"","comp":[{"t":"univ"},{"t":"not","args":[comp]}]}]]) } else { json!([[{"comb":"","comp":comp}]]) };
    let mut tags = Vec::new(); let mut html = Vec::new(); let mut offs = Vec::new();
    for (i, val) in VALUES.iter().enumerate() {
        let name = if i % 5 == 4 { "b" } else { "a" };
        offs.push(html.len());
        let an = if i % 7 == 3 { "X" } else { "x" };
        html.extend_from_slice(format!("<{name} {an}=\"{val}\">").as_bytes());
        tags.push(json!({"k":"st","n":b(name),"attrs":[[b(an), b(val)]],"sc":false,"ns":"html"}));
        if i % 3 == 0 { offs.push(html.len()); html.extend_from_slice(format!("</{name}>").as_bytes()); tags.push(json!({"k":"et","n":b(name)})); }
    }
    (vec![sel], tags, html, offs)
}

/// positional selectors on deeply nested documents with end tags that close several levels at once
fn nth_family(rng: &mut Rng) -> (Vec<Value>, Vec<Value>, Vec<u8>, Vec<usize>) {
    let names = ["a", "b", "section"];
    let mut sels = Vec::new();
    for _ in 0..(1 + rng.below(3)) {
        let a = *rng.pick(&[0i64, 0, 1, 2, -1, 3]);
        let bb = *rng.pick(&[1i64, 1, 2, 3, 0, -1]);
        let mut comp = Vec::new();
        if rng.chance(2, 3) { comp.push(json!({"t":"type","n":b(*rng.pick(&names))})); }
        comp.push(json!({"t":"nth","oftype":rng.chance(2, 3),"a":a,"b":bb}));
        let mut cx = vec![json!({"comb":"","comp":comp})];
        if rng.chance(1, 3) { cx.insert(0, json!({"comb":"","comp":[{"t":"type","n":b(*rng.pick(&names))}]})); cx[1]["comb"] = json!(*rng.pick(&[">", " "])); }
        sels.push(json!([cx]));
    }
    let mut tags = Vec::new(); let mut html = Vec::new(); let mut offs = Vec::new();
    let mut open: Vec<&str> = Vec::new();
    for _ in 0..(4 + rng.below(10)) {
        if open.len() < 5 && rng.chance(3, 5) {
            let nm = *rng.pick(&names);
            offs.push(html.len()); html.extend_from_slice(format!("<{nm}>").as_bytes());
            tags.push(json!({"k":"st","n":b(nm),"attrs":[],"sc":false,"ns":"html"})); open.push(nm);
        } else if !open.is_empty() {
            // close an element at a random depth: everything inside it is closed implicitly
            let k = if rng.chance(1, 2) { open.len() - 1 } else { rng.below(open.len()) };
            let nm = open[k]; 
            if let Some(p) = open.iter().rposition(|&o| o == nm) { open.truncate(p); }
            offs.push(html.len()); html.extend_from_slice(format!("</{nm}>").as_bytes());
            tags.push(json!({"k":"et","n":b(nm)}));
        }
    }
    (sels, tags, html, offs)
}

/// Foreign content: nested svg / math roots, self-closing elements, integration points, void-named elements in a
/// foreign namespace, followed by position-dependent selectors.
fn foreign_family(rng: &mut Rng) -> (Vec<Value>, Vec<Value>, Vec<u8>, Vec<usize>) {
    let names: Vec<&str> = vec!["svg", "g", "path", "rect", "math", "mi", "mrow", "foreignobject", "desc", "input", "b", "div"];
    let mut sels = Vec::new();
    for _ in 0..(1 + rng.below(3)) {
        let last = match rng.below(3) {
            0 => json!([{"t":"type","n":b(*rng.pick(&names))}]),
            1 => json!([{"t":"type","n":b(*rng.pick(&names))},{"t":"nth","oftype":rng.chance(1, 2),"a":0,"b":1 + rng.below(3) as i64}]),
            _ => json!([{"t":"nth","oftype":false,"a":*rng.pick(&[0i64, 2]),"b":1 + rng.below(2) as i64}]),
        };
        let mut cx = vec![json!({"comb":"","comp":last})];
        if rng.chance(2, 3) { cx.insert(0, json!({"comb":"","comp":[{"t":"type","n":b(*rng.pick(&["svg", "math", "g", "mi", "foreignobject", "div"]))}]})); cx[1]["comb"] = json!(*rng.pick(&[">", " "])); }
        sels.push(json!([cx]));
    }
    let mut tags = Vec::new(); let mut html = Vec::new(); let mut offs = Vec::new();
    let mut open: Vec<&str> = Vec::new();
    for _ in 0..(4 + rng.below(9)) {
        if open.len() < 5 && rng.chance(2, 3) {
            let nm = if open.is_empty() || rng.chance(1, 4) { *rng.pick(&["svg", "math", "div"]) } else { *rng.pick(&names) };
            let sc = rng.chance(1, 3) && !matches!(nm, "svg" | "math" | "div" | "b");
            offs.push(html.len()); html.extend_from_slice(format!("<{nm}{}>", if sc { "/" } else { "" }).as_bytes());
            tags.push(json!({"k":"st","n":b(nm),"attrs":[],"sc":sc,"ns":"html"}));
            if !sc { open.push(nm); }
        } else if !open.is_empty() {
            let k = if rng.chance(2, 3) { open.len() - 1 } else { rng.below(open.len()) };
            let nm = open[k];
            if let Some(p) = open.iter().rposition(|&o| o == nm) { open.truncate(p); }
            offs.push(html.len()); html.extend_from_slice(format!("</{nm}>").as_bytes());
            tags.push(json!({"k":"et","n":b(nm)}));
        }
    }
    (sels, tags, html, offs)
}

pub fn job_c04(out_dir: &str, tier: &str, seed: u64) {
    let quick = tier == "quick";
    let mut rng = Rng::new(seed ^ 0xC04);
    let mut sh = Shards::new(out_dir, "c04", 600_000);
    let npairs = if quick { 14000 } else { 200000 };
    let mut n = 0usize;
    let mut unparsable = 0usize;
    for case in 0..npairs {
        let family = case % 5;
        let (sels, mut tags, html, offs) = match family {
            0 => attr_family(&mut rng, case / 5),
            1 => nth_family(&mut rng),
            4 => foreign_family(&mut rng),
            _ => {
                let nsel = 1 + rng.below(3);
                let sels: Vec<Value> = (0..nsel).map(|_| gen_selector(&mut rng)).collect();
                let (tags, html, offs) = gen_doc(&mut rng, 9);
                (sels, tags, html, offs)
            }
        };
        let nsel = sels.len();
        let css: Vec<String> = sels.iter().map(render_selector).collect();
        // namespaces (needed for "self-closing closes a foreign element") as lol-html itself reports them
        let probe = json!({"elem":[{"sel":"*","element":[]}],"strict":false});
        let ptl = driver::run(&probe, &html, &[], &RunOpts::default());
        for e in &ptl {
            if e["e"] == "ev" && e["k"] == "el" {
                let s = e["loc"][0].as_u64().unwrap() as usize;
                if let Some(p) = offs.iter().position(|&o| o == s) {
                    let ns = match e["ns"].as_str().unwrap_or("") { "http://www.w3.org/2000/svg" => "svg", "http://www.w3.org/1998/Math/MathML" => "mathml", _ => "html" };
                    tags[p]["ns"] = json!(ns);
                }
            }
        }
        let cfg_all = json!({"elem": css.iter().map(|c| json!({"sel": c, "element": []})).collect::<Vec<_>>(), "strict": false});
        let tl = driver::run(&cfg_all, &html, &[], &RunOpts::default());
        // every generated selector is in the supported grammar and nothing can fail in this configuration: a refused
        // selector or a failed run is judged (and rejected), not skipped
        let failed: Option<String> = if tl.iter().any(|e| e["e"] == "new") { unparsable += 1; Some("selector refused".into()) }
            else { tl.iter().filter(|e| e["e"] == "ret" && e["res"] != "ok").map(|e| e["res"].as_str().unwrap_or("?").to_string()).next() };
        let mut obs = vec![json!({"variant":"all-single","only":0,"inv":invocations(&tl, &offs)})];
        if let Some(why) = failed { obs[0]["failed"] = json!(why); }
        let mut seen = std::collections::HashSet::new();
        seen.insert(obs[0]["inv"].to_string() + "|0");
        let mut add = |variant: &str, only: usize, inv: Vec<Value>, obs: &mut Vec<Value>| {
            let key = Value::Array(inv.clone()).to_string() + "|" + &only.to_string();
            if seen.insert(key) { obs.push(json!({"variant": variant, "only": only, "inv": inv})); }
        };
        // chunkings
        let bytewise: Vec<usize> = (1..html.len()).collect();
        add("all-bytewise", 0, invocations(&driver::run(&cfg_all, &html, &bytewise, &RunOpts::default()), &offs), &mut obs);
        let k = 1 + rng.below(3);
        let mut cuts: Vec<usize> = (0..k).map(|_| rng.below(html.len() + 1)).collect(); cuts.sort_unstable();
        add("all-random-cuts", 0, invocations(&driver::run(&cfg_all, &html, &cuts, &RunOpts::default()), &offs), &mut obs);
        // each selector alone (independence from the other registered selectors)
        if nsel > 1 {
            for (i, c) in css.iter().enumerate() {
                let cfg1 = json!({"elem":[{"sel": c, "element": []}], "strict": false});
                let inv: Vec<Value> = invocations(&driver::run(&cfg1, &html, &[], &RunOpts::default()), &offs).into_iter().map(|p| json!([i + 1, p[1]])).collect();
                add(&format!("alone-{}", i + 1), i + 1, inv, &mut obs);
            }
        }
        // together with an observer that keeps the lexer on (text) and with '*'
        let mut cfg_lex = cfg_all.clone();
        cfg_lex["doc"] = json!([{"text":[],"comments":[]}]);
        add("all+doc-text", 0, invocations(&driver::run(&cfg_lex, &html, &[], &RunOpts::default()), &offs), &mut obs);
        n += 1;
        let rec = json!({"id": format!("c04-{n}"), "doc": tags, "sels": sels, "obs": obs});
        let src = json!({"id": rec["id"], "css": css, "html": String::from_utf8_lossy(&html), "input": html, "sels": rec["sels"], "doc": rec["doc"], "cuts": cuts});
        let key = format!("{}|{}|{}", rec["doc"], rec["sels"], rec["obs"]);
        sh.push(&rec, &src, Some(&key), true);
    }
    // replay of the design-level model (spec/SelectorVM.tla, MC_SelVM): every (document, selector set) of the bounded
    // instance, rendered and run on the real code
    let path = std::env::var("VERIF_REPLAY_FILE").unwrap_or_default();
    let text = std::fs::read_to_string(&path).unwrap_or_default();
    let lines: Vec<&str> = text.lines().filter(|l| l.contains("\"vdoc\"")).collect();
    let stride = if quick { (lines.len() / 5000).max(1) } else { (lines.len() / 60000).max(1) };
    let mut replayed = 0usize;
    for (li, line) in lines.iter().enumerate() {
        if li % stride != 0 { continue; }
        let v: Value = match serde_json::from_str(line) { Ok(v) => v, Err(_) => continue };
        let tags: Vec<Value> = v["vdoc"].as_array().cloned().unwrap_or_default();
        // foreign tags need their context to be rendered: only the HTML-namespace documents are replayed
        if tags.is_empty() || tags.iter().any(|t| t["k"] == "st" && t["ns"] != "html") { continue; }
        let bytes = |x: &Value| -> Vec<u8> { x.as_array().map(|a| a.iter().map(|c| c.as_u64().unwrap_or(63) as u8).collect()).unwrap_or_default() };
        let mut html: Vec<u8> = Vec::new(); let mut offs: Vec<usize> = Vec::new();
        for t in &tags {
            offs.push(html.len());
            if t["k"] == "st" {
                html.push(b'<'); html.extend(bytes(&t["n"]));
                for a in t["attrs"].as_array().cloned().unwrap_or_default() { html.push(b' '); html.extend(bytes(&a[0])); html.extend_from_slice(b"=\""); html.extend(bytes(&a[1])); html.push(b'"'); }
                html.extend_from_slice(if t["sc"] == true { b"/>" } else { b">" });
            } else { html.extend_from_slice(b"</"); html.extend(bytes(&t["n"])); html.push(b'>'); }
        }
        let sels: Vec<Value> = v["sels"].as_array().cloned().unwrap_or_default();
        let css: Vec<String> = sels.iter().map(render_selector).collect();
        let cfg_all = json!({"elem": css.iter().map(|c| json!({"sel": c, "element": []})).collect::<Vec<_>>(), "strict": false});
        let tl = driver::run(&cfg_all, &html, &[], &RunOpts::default());
        let failed: Option<String> = if tl.iter().any(|e| e["e"] == "new") { Some("selector refused".into()) }
            else { tl.iter().filter(|e| e["e"] == "ret" && e["res"] != "ok").map(|e| e["res"].as_str().unwrap_or("?").to_string()).next() };
        let mut obs = vec![json!({"variant":"all-single","only":0,"inv":invocations(&tl, &offs)})];
        if let Some(why) = failed { obs[0]["failed"] = json!(why); }
        let bytewise: Vec<usize> = (1..html.len()).collect();
        let inv2 = invocations(&driver::run(&cfg_all, &html, &bytewise, &RunOpts::default()), &offs);
        if Value::Array(inv2.clone()) != obs[0]["inv"] { obs.push(json!({"variant":"all-bytewise","only":0,"inv":inv2})); }
        n += 1; replayed += 1;
        let rec = json!({"id": format!("c04-{n}"), "doc": tags, "sels": sels, "obs": obs});
        let src = json!({"id": rec["id"], "css": css, "html": String::from_utf8_lossy(&html), "input": html, "sels": rec["sels"], "doc": rec["doc"], "cuts": [], "replayed_from": "MC_SelVM"});
        let key = format!("{}|{}|{}", rec["doc"], rec["sels"], rec["obs"]);
        sh.push(&rec, &src, Some(&key), true);
    }
    eprintln!("c04: replayed {replayed} model cases");
    sh.finish(json!({"rule": "seeded (selector set, document) pairs: 1-3 selectors from the supported grammar (type, *, #id, .class, [attr] with the six operators and i/s flags incl. empty operands, :nth-child / :nth-of-type / :first-*, :not() with 1-2 compound arguments and nesting, child / descendant combinators up to 3 compounds, 2-selector lists) x documents of <= 9 tags over 12 names (voids, > 12 characters, hyphenated, svg island, upper case) with 0-2 attributes (duplicates, case variants), self-closing syntax, mis-nesting and stray end tags; observed: all selectors together (single write, byte-wise, random cuts, with a text observer) and each selector alone.",
        "unparsable_selector_sets_skipped": unparsable}));
}

pub fn replay(src: &Value, out_dir: &str) {
    // re-run the recorded css / html; the judge needs doc + sels again, which the src carries
    let html: Vec<u8> = src["input"].as_array().map(|a| a.iter().map(|x| x.as_u64().unwrap() as u8).collect()).unwrap_or_default();
    let css: Vec<String> = src["css"].as_array().map(|a| a.iter().map(|x| x.as_str().unwrap().to_string()).collect()).unwrap_or_default();
    let mut sh = Shards::new(out_dir, "c04", 50_000_000);
    let cfg_all = json!({"elem": css.iter().map(|c| json!({"sel": c, "element": []})).collect::<Vec<_>>(), "strict": false});
    let tl = driver::run(&cfg_all, &html, &[], &RunOpts::default());
    // offsets: positions of '<' of every tag in the rendering (documents contain no other '<')
    let offs: Vec<usize> = html.iter().enumerate().filter(|(_, &c)| c == b'<').map(|(i, _)| i).collect();
    let rec = json!({"id": "replay", "doc": src["doc"], "sels": src["sels"], "obs": [{"variant":"all-single","only":0,"inv":invocations(&tl, &offs)}]});
    sh.push(&rec, src, None, true);
    sh.finish(json!({}));
}
