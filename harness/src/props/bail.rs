//! C11 job: a failure at every handler invocation index and a memory-limit sweep over every allocation
//! site, each paired with the failure-free run; judged by spec/TraceBail.tla.
use crate::driver::{self, RunOpts};
use crate::gen::{self, Rng};
use crate::out::Shards;
use crate::props::stream::{has_ops, mutating_sets, sink_bytes};
use serde_json::{json, Value};

fn bails() -> Vec<(Value, Vec<Vec<u8>>)> {
    vec![
        (json!([]), vec![]),
        (json!([[{"op":"append","a":["<!--bail-->"]}]]), vec![b"<!--bail-->".to_vec()]),
        (json!([[{"op":"append","a":["B1"]}],[{"op":"append","a":["b<2",false]},{"op":"append","a":["!"]}]]), vec![b"B1".to_vec(), b"b&lt;2!".to_vec()]),
    ]
}

fn removing_config(cfg: &Value) -> bool {
    // any handler that may suppress emission: remove / replace / set_inner on elements
    cfg.to_string().contains("\"remove\"") || cfg.to_string().contains("\"replace\"") || cfg.to_string().contains("\"set_inner\"") || cfg.to_string().contains("\"remove_keep\"")
}

fn build(id: String, cfg: &Value, input: &[u8], tl: &[Value], normal: &[u8], kind: &str, bail: &[Vec<u8>]) -> Value {
    let mut received = 0usize;
    let mut ends: Vec<usize> = Vec::new();   // bytes received after each write
    let mut res = "ok".to_string();
    let mut p: i64 = -1; let mut q: i64 = -1; let mut failk = String::new();
    let mut nbo = 0usize; let mut boerr = Vec::new();
    for e in tl {
        if e["e"] == "call" && e["op"] == "write" && e.get("poke").is_none() && res == "ok" { received += e["b"].as_array().unwrap().len(); ends.push(received); }
        if e["e"] == "ret" && e["res"] != "ok" && res == "ok" { res = e["res"].as_str().unwrap().to_string(); }
        if e["e"] == "ev" {
            if e["k"] == "bo" { nbo += 1; boerr.push(e["err"].clone()); continue; }
            if e["fail"] == true {
                failk = e["k"].as_str().unwrap().to_string();
                q = e["sl"].as_i64().unwrap_or(-1);
                p = if failk == "de" { received as i64 } else { e["loc"][0].as_i64().unwrap_or(-1) };
            }
        }
    }
    json!({"id": id, "input": input, "received": received, "ends": ends, "kind": kind, "failk": failk, "p": p, "q": q,
        "removing": removing_config(cfg), "passthru": !has_ops(cfg),
        "gmem": cfg.get("mem").and_then(|m| m.get("graceful")).and_then(|x| x.as_bool()).unwrap_or(false),
        "ghandler": cfg.get("gh").and_then(|x| x.as_bool()).unwrap_or(false),
        "bail": bail, "normal": normal, "res": res, "sink": sink_bytes(tl), "nbo": nbo, "boerr": boerr})
}

pub fn job_c11(out_dir: &str, tier: &str, seed: u64) {
    let quick = tier == "quick";
    let mut rng = Rng::new(seed ^ 0xC11);
    let mut sh = Shards::new(out_dir, "c11", 1_000_000);
    let mut sets = gen::observer_sets();
    sets.extend(mutating_sets());
    sets.retain(|(n, _)| *n != "m-empty-comment");
    let bl = bails();
    let mut n = 0usize;
    let (mut nh, mut nm) = (0usize, 0usize);
    let mut inputs = gen::corpus(&mut rng, if quick { 10 } else { 40 }, if quick { 500 } else { 12000 });
    inputs.retain(|i| !i.is_empty() && i.len() <= 120);
    let opts = RunOpts::default();
    // (input, encoding, every single cut?)
    let mut cases: Vec<(Vec<u8>, &'static str, bool)> = inputs.into_iter().map(|i| (i, "utf-8", false)).collect();
    // text whose decoding goes through the streaming decoder (a write boundary inside a character, malformed
    // bytes, high bytes of a single-byte encoding): a text handler failing on the first chunk of such a node
    for t in ["<div><p>ab\u{e9} cd</p> tail</div>", "<p>\u{65e5}\u{672c}</p>x<i>\u{1F600}y</i>", "x\u{e9}<b>\u{e9}\u{e9}</b>"] {
        cases.push((t.as_bytes().to_vec(), "utf-8", true));
    }
    // (malformed sequences are left out: a text handler normalises them to U+FFFD, C01's documented exception, so the
    // sink is not comparable byte-wise with the input)
    cases.push((b"<p>caf\xE9 cr\xE8me</p><b>\x80</b>".to_vec(), "windows-1252", true));
    cases.push((b"<p>\x93\xFA\x96\x7B</p>t<i>\x83\x5C</i>".to_vec(), "shift_jis", true));
    for (ii, (input, enc, allcuts)) in cases.iter().enumerate() {
        let input = input;
        for si in 0..(if *allcuts { 4 } else { 2 }) {
            let (_, hs) = &sets[if *allcuts { [0usize, 1, 2, 6][si] % sets.len() } else { (ii + si * 11) % sets.len() }];
            let base = gen::merge(hs, &json!({"strict": false, "enc": enc}));
            let cutsets = if *allcuts { let mut c: Vec<Vec<usize>> = vec![vec![]]; for k in 1..input.len() { c.push(vec![k]); } c } else { gen::light_cut_sets(input.len(), &mut rng, 1) };
            for cuts in &cutsets {
                let tl0 = driver::run(&base, input, cuts, &opts);
                if tl0.iter().any(|e| e["e"] == "ret" && e["res"] != "ok") {
                    n += 1;
                    let why = tl0.iter().filter(|e| e["e"] == "ret" && e["res"] != "ok").map(|e| e["res"].as_str().unwrap_or("?").to_string()).next().unwrap_or_default();
                    let rec = json!({"id": format!("c11-{n}"), "failed": why});
                    sh.push(&rec, &json!({"id": rec["id"], "cfg": base, "input": input, "cuts": cuts}), None, true);
                    continue;
                }
                let normal = sink_bytes(&tl0);
                let ninv = tl0.iter().filter(|e| e["e"] == "ev" && e["k"] != "bo").count();
                let cap = if quick { 8 } else { 40 };
                // a failure at every handler invocation index
                for i in 1..=ninv.min(cap) {
                    let idx = if ninv <= cap { i } else { 1 + rng.below(ninv) };
                    let (gh, gm) = match rng.below(4) { 0 => (false, false), 1 => (false, true), _ => (true, rng.chance(1, 2)) };
                    let (bcfg, bcontent) = &bl[rng.below(3)];
                    let cfg = gen::merge(&base, &json!({"fail_at": idx, "gh": gh, "bail": bcfg, "mem": {"graceful": gm}}));
                    let tl = driver::run(&cfg, input, cuts, &opts);
                    n += 1; nh += 1;
                    let rec = build(format!("c11-{n}"), &cfg, input, &tl, &normal, "handler", bcontent);
                    let src = json!({"id": rec["id"], "cfg": cfg, "input": input, "cuts": cuts});
                    sh.push(&rec, &src, None, true);
                }
                // memory limits: usage of the free run tells which limits make which allocation fail
                if ii % 2 == 0 {
                    let usages: Vec<usize> = tl0.iter().filter(|e| e["e"] == "ret").filter_map(|e| e.get("usage").and_then(|u| u.as_u64())).map(|u| u as usize).collect();
                    let need = usages.iter().cloned().max().unwrap_or(0);
                    let mut ms: Vec<usize> = vec![0, 1, 2, 3, 5, 8, 13, 21, 34];
                    let mut distinct: Vec<usize> = usages.clone(); distinct.sort_unstable(); distinct.dedup();
                    for u in distinct { if u > 0 { ms.push(u - 1); } ms.push(u); }
                    ms.retain(|&m| m <= need + 1); ms.sort_unstable(); ms.dedup();
                    for &mx in &ms {
                        let (gh, gm) = match rng.below(4) { 0 => (false, false), 1 => (true, false), _ => (rng.chance(1, 2), true) };
                        let (bcfg, bcontent) = &bl[rng.below(3)];
                        let cfg = gen::merge(&base, &json!({"gh": gh, "bail": bcfg, "mem": {"max": mx, "prealloc": 0, "graceful": gm}}));
                        // the failure-free reference must use the same (prealloc 0) configuration
                        let tl = driver::run(&cfg, input, cuts, &opts);
                        n += 1; nm += 1;
                        let rec = build(format!("c11-{n}"), &cfg, input, &tl, &normal, "mem", bcontent);
                        let src = json!({"id": rec["id"], "cfg": cfg, "input": input, "cuts": cuts});
                        sh.push(&rec, &src, None, true);
                    }
                }
            }
        }
    }
    sh.finish(json!({"rule": "crash points: for every (input, handler set, chunking) the failure-free run is recorded, then a handler failure is injected at EVERY invocation index (doctype, element, selector- and document-level text incl. the empty last chunk, comments, end-tag handlers, document end), and the memory limit is swept over every value around each usage level of the free run (append to the buffer, first buffering of a tail, stack push, in end()); flags (handler x memory) and 0-2 bail-out handlers vary; inputs: the shared corpus (<= 120 bytes), 13 observer + 6 mutating handler sets, single / byte-wise / random chunkings.",
        "handler_failure_runs": nh, "memory_failure_runs": nm}));
}
