//! C17 job: the same rewrite through the exported C functions and through the Rust API (product record),
//! plus the call history of the C run for the lifecycle / error contract; judged by spec/TraceCApi.tla.
use crate::capi::{self, CapiOpts};
use crate::driver::{self, RunOpts};
use crate::gen::{self, Rng};
use crate::out::Shards;
use crate::props::rel::{invariant_mutating_sets, observation};
use serde_json::{json, Value};

fn rstr(v: &Value) -> String {
    match v { Value::String(s) => s.clone(), Value::Null => "null".into(), other => other.to_string() }
}

/// call history of the C run in the alphabet of spec/CApi.tla
fn api_history(tl: &[Value]) -> Vec<Value> {
    let mut out = Vec::new();
    for e in tl {
        match e["e"].as_str().unwrap_or("") {
            "api" => {
                let op = e["op"].as_str().unwrap_or("");
                match op {
                    "take_last_error" => {
                        let has = !e["r"].is_null();
                        let at = e.get("at").and_then(|x| x.as_str()).unwrap_or("");
                        let in_handler = at.len() >= 2 && (at.starts_with('e') || at.starts_with('d')) && at.as_bytes()[1].is_ascii_digit();
                        if has && in_handler { out.push(json!({"op":"handler_error","r":"-1"})); }
                        out.push(json!({"op": op, "r": if has { "msg" } else { "null" }}));
                    }
                    "strcheck" => out.push(json!({"op": op, "r": "", "obtained": e["obtained"], "freed": e["freed"]})),
                    "leakcheck" => out.push(json!({"op": op, "r": "", "live": e["live"]})),
                    "late_str_free" => {}
                    _ => out.push(json!({"op": op, "r": rstr(&e["r"])})),
                }
            }
            "ev" => {
                // streaming handlers created by this invocation (each must be dropped exactly once)
                fn count(ops: Option<&Value>, out: &mut Vec<Value>) {
                    for op in ops.and_then(|x| x.as_array()).cloned().unwrap_or_default() {
                        let name = op["op"].as_str().unwrap_or("");
                        if name.starts_with("s_") && op["r"] == "ok" { out.push(json!({"op":"stream_new","r":""})); }
                    }
                }
                count(e.get("ops"), &mut out);
            }
            _ => {}
        }
    }
    // stream_new events are logged when the invocation's event is written (after the handler returned), i.e.
    // possibly after the corresponding drop: move every stream_new in front of the drops
    let news: Vec<Value> = out.iter().filter(|e| e["op"] == "stream_new").cloned().collect();
    let mut rest: Vec<Value> = out.into_iter().filter(|e| e["op"] != "stream_new").collect();
    let pos = rest.iter().position(|e| e["op"] == "stream_drop").unwrap_or_else(|| rest.iter().position(|e| e["op"] == "strcheck").unwrap_or(rest.len()));
    for (i, n) in news.into_iter().enumerate() { rest.insert(pos + i, n); }
    rest
}

fn c_supported_sets() -> Vec<(&'static str, Value)> {
    let obs = json!([]);
    let mut v = gen::observer_sets();
    v.extend(invariant_mutating_sets().into_iter().filter(|(n, _)| *n != "i-starttag"));
    v.push(("c-full", json!({"full": true, "elem":[{"sel":"*","element":[{"op":"get_attr","a":["href"]},{"op":"get_attr","a":["id"]}],"comments":obs,"text":obs}],"doc":[{"doctype":obs,"comments":obs}]})));
    v.push(("c-reads", json!({"elem":[{"sel":"*","element":[{"op":"get_attr","a":["href"]},{"op":"has_attr","a":["ID"]},{"op":"set_attr","a":["a b","v"]},{"op":"set_name","a":["x y"]},{"op":"set_attr","a":["ok","1"]}],"text":obs,"comments":[{"op":"set_text","a":["a-->b"]},{"op":"set_text","a":["fine"]}]}],"doc":[{"doctype":obs,"end":[{"op":"append","a":["<!--e-->"]}]}]})));
    // streaming handlers whose callback fails (invalid UTF-8 chunk): the callback reports a positive code
    v.push(("c-stream-bad", json!({"elem":[{"sel":"a, p","element":[{"op":"s_append","a":[["x", {"bytes":[255]}, "y"]]}]},{"sel":"b, div","element":[{"op":"s_before","a":[["t", {"bytes":[195, 40]}], false]}]}]})));
    v.push(("c-stream", json!({"elem":[{"sel":"a, p, b","element":[{"op":"s_before","a":[["<", "x>"], false]},{"op":"s_append","a":[["é", {"bytes":[226,130]},{"bytes":[172]}]]},{"op":"on_end_tag","a":[[{"op":"s_after","a":[["!"]]},{"op":"remove"}]]}],"text":[{"op":"s_replace","a":[["T"]],"last":true}]}]})));
    v
}

pub fn job_c17(out_dir: &str, tier: &str, seed: u64) {
    let quick = tier == "quick";
    let mut rng = Rng::new(seed ^ 0xC17);
    let mut sh = Shards::new(out_dir, "c17", 1_000_000);
    let sets = c_supported_sets();
    let all = |_: &str| true;
    let mut inputs = gen::corpus(&mut rng, if quick { 14 } else { 30 }, if quick { 2500 } else { 12000 });
    inputs.retain(|i| i.len() <= 200);
    let mut n = 0usize; let mut skipped = 0usize; let mut died = 0usize;
    let mut pending: Vec<(Value, Vec<u8>, Vec<usize>, CapiOpts, Value)> = Vec::new();
    for (ii, input) in inputs.iter().enumerate() {
        for si in 0..2 {
            let (_, hs) = &sets[(ii + si * 7) % sets.len()];
            let mut cfg = gen::merge(hs, &json!({"strict": rng.chance(2, 3), "enc": if rng.chance(4, 5) { "utf-8" } else { *rng.pick(&["windows-1252", "shift_jis", "koi8-r"]) }}));
            // error injections: Stop at a handler index, tiny memory limits, bad selector / encoding
            match rng.below(10) {
                0 | 1 => cfg = gen::merge(&cfg, &json!({"fail_at": 1 + rng.below(8)})),
                2 => cfg = gen::merge(&cfg, &json!({"mem": {"max": rng.below(60), "prealloc": 0}})),
                3 => cfg = gen::merge(&cfg, &json!({"mem": {"max": 900 + rng.below(200), "prealloc": 16}})),
                4 if ii % 7 == 0 => cfg = gen::merge(&cfg, &json!({"elem": [{"sel": "div >", "element": []}]})),
                5 if ii % 9 == 0 => cfg = gen::merge(&cfg, &json!({"enc": "utf-16"})),
                _ => {}
            }
            let k = rng.below(4);
            let mut cuts: Vec<usize> = (0..k).map(|_| rng.below(input.len() + 1)).collect(); cuts.sort_unstable();
            if ii % 5 == 0 { cuts = (1..input.len()).collect(); }
            let opts = CapiOpts { free_builder_early: rng.chance(1, 2), free_selectors_early: rng.chance(1, 3), late_str_free: rng.chance(1, 2),
                                  skip_end: rng.chance(1, 10), double_take_error: rng.chance(1, 2), untaken_selector_error: rng.chance(1, 4) };
            let optsj = json!({"free_builder_early": opts.free_builder_early, "free_selectors_early": opts.free_selectors_early, "late_str_free": opts.late_str_free, "skip_end": opts.skip_end, "untaken_selector_error": opts.untaken_selector_error, "double_take_error": opts.double_take_error});
            pending.push((cfg.clone(), input.clone(), cuts.clone(), opts, optsj));
        }
    }
    // the C runs happen in child processes (batches): if a permitted history makes the process abort or crash,
    // that is an observation ("process_died"), not a failure of the harness
    let exe = std::env::current_exe().unwrap();
    let run_batch = |batch: &[(Value, Vec<u8>, Vec<usize>, CapiOpts, Value)]| -> Option<Vec<Vec<Value>>> {
        use std::io::Write;
        let mut child = std::process::Command::new(&exe).arg("capi-run").stdin(std::process::Stdio::piped()).stdout(std::process::Stdio::piped()).stderr(std::process::Stdio::null()).spawn().ok()?;
        {
            let mut stdin = child.stdin.take()?;
            for (cfg, input, cuts, _, optsj) in batch { let _ = writeln!(stdin, "{}", json!({"cfg": cfg, "input": input, "cuts": cuts, "opts": optsj})); }
        }
        let out = child.wait_with_output().ok()?;
        if !out.status.success() { return None; }
        let lines: Vec<Vec<Value>> = String::from_utf8_lossy(&out.stdout).lines().filter_map(|l| serde_json::from_str::<Value>(l).ok()).map(|v| v["tl"].as_array().cloned().unwrap_or_default()).collect();
        if lines.len() == batch.len() { Some(lines) } else { None }
    };
    let mut ctls: Vec<Option<Vec<Value>>> = Vec::new();
    for batch in pending.chunks(64) {
        match run_batch(batch) {
            Some(ls) => ctls.extend(ls.into_iter().map(Some)),
            None => for one in batch.chunks(1) { ctls.push(run_batch(one).map(|mut v| v.remove(0))); },
        }
    }
    for ((cfg, input, cuts, opts, optsj), ctl) in pending.iter().zip(ctls.into_iter()) {
        {
            let input = input;
            let ctl = match ctl { Some(c) => c, None => {
                died += 1; n += 1;
                let rec = json!({"id": format!("c17-{n}"), "compare": false, "api": [{"op":"process_died","r":"abort"}], "rust": {}, "c": {}});
                sh.push(&rec, &json!({"id": rec["id"], "cfg": cfg, "input": input, "cuts": cuts, "opts": optsj}), None, true);
                continue;
            } };
            if ctl.iter().any(|e| e.to_string().contains("unknown-op")) { skipped += 1; continue; }
            let rtl = driver::run(cfg, input, cuts, &RunOpts { no_end: opts.skip_end, ..RunOpts::default() });
            let mut rust = observation("rust", &capi::normalise(&rtl), &all);
            let mut c = observation("c", &capi::normalise(&ctl), &all);
            for o in [&mut rust, &mut c] { for e in o["evs"].as_array_mut().unwrap() { if e["tt"].is_null() { e["tt"] = json!(""); } } }
            n += 1;
            // the message of the first failing write / end: the C side's last-error string next to the Display of the
            // error the Rust API returns for the same call (compared for failures whose text does not come from a handler)
            let cm = ctl.iter().find(|e| e["e"] == "ret" && e["res"] != "ok" && e.get("cmsg").is_some()).map(|e| json!({"res": e["res"], "m": e["cmsg"].as_str().unwrap_or("")})).unwrap_or(json!({"res": "", "m": ""}));
            let rm = rtl.iter().find(|e| e["e"] == "ret" && e["res"] != "ok" && e.get("emsg").is_some()).map(|e| json!({"res": e["res"], "m": e["emsg"].as_str().unwrap_or("")})).unwrap_or(json!({"res": "", "m": ""}));
            let rec = json!({"id": format!("c17-{n}"), "compare": true, "api": api_history(&ctl), "rust": rust, "c": c, "msgs": {"c": cm, "rust": rm}});
            let src = json!({"id": rec["id"], "cfg": cfg, "input": input, "cuts": cuts, "opts": optsj});
            sh.push(&rec, &src, None, true);
        }
    }
    // the error probe: every failing entry point leaves a message; a second take returns NULL
    let probe = capi::capi_error_probe();
    n += 1;
    let rec = json!({"id": format!("c17-{n}"), "compare": false, "api": api_history(&probe), "rust": {}, "c": {}});
    sh.push(&rec, &json!({"id": rec["id"], "probe": true}), None, true);
    sh.finish(json!({"rule": "the shared corpus (<= 200 bytes) x 13 observer + 4 mutating + 2 C-specific handler sets (reads, validating setters with invalid arguments, streaming handlers with split UTF-8) x encodings x error injections (Stop at a handler index, tiny and medium memory limits, invalid selector, non-ASCII-compatible encoding) x chunkings, each driven through the extern C symbols under a random create/use/free history (builder freed early, selectors freed early, strings freed after the rewriter, rewriter freed without end, double take_last_error) and through the Rust API; plus the error probe of every failing entry point.",
        "configurations_skipped_not_expressible_in_c": skipped, "c_processes_that_died": died}));
}
