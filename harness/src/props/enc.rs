//! C13 job: documents in every ASCII-compatible encoding; witnesses (encoding_rs whole-slice decode /
//! encode) travel in the record; spec/TraceEnc.tla decides which slice each observed string must decode.
use crate::driver::{self, RunOpts, s2cp};
use crate::gen::{self, Rng};
use crate::out::Shards;
use crate::props::tok::{capture_all, project};
use crate::props::stream::sink_bytes;
use encoding_rs::Encoding;
use serde_json::{json, Value};
use std::collections::BTreeSet;

const POOL: &[&str] = &["é", "ß", "Я", "ж", "日本", "語", "한", "ก", "א", "ع", "α", "ő", "ş", "€", "ñ", "ç", "ü", "Ω", "«", "ї", "😀", "ሴ"];

fn enc_of(label: &str) -> &'static Encoding { Encoding::for_label_no_replacement(label.as_bytes()).unwrap() }

/// sample strings the encoding can represent, as bytes
fn samples(enc: &'static Encoding) -> Vec<Vec<u8>> {
    let mut v = Vec::new();
    for s in POOL {
        let (b, _, unmappable) = enc.encode(s);
        if !unmappable { v.push(b.into_owned()); }
    }
    if v.is_empty() { v.push(b"x".to_vec()); }
    v
}

fn decode_w(enc: &'static Encoding, input: &[u8], s: usize, e: usize) -> Option<Value> {
    if s > e || e > input.len() { return None; }
    let (t, _) = enc.decode_without_bom_handling(&input[s..e]);
    Some(json!({"s": s, "e": e, "t": s2cp(&t)}))
}

/// witnesses for every slice an observed string may come from (candidates; the judge picks by range)
fn witnesses(enc: &'static Encoding, input: &[u8], toks: &[Value]) -> Vec<Value> {
    let mut ranges: BTreeSet<(usize, usize)> = BTreeSet::new();
    let is_end = |b: u8| matches!(b, b' ' | b'\n' | b'\r' | b'\t' | 0x0c | b'/' | b'>');
    let mut node_start: Option<usize> = None;
    for t in toks {
        let s = t["s"].as_u64().unwrap() as usize; let e = t["e"].as_u64().unwrap() as usize;
        match t["k"].as_str().unwrap() {
            "st" | "et" => {
                let ns = s + if t["k"] == "st" { 1 } else { 2 };
                let mut ne = ns; while ne < e && !is_end(input[ne]) { ne += 1; }
                ranges.insert((ns, ne));
                for a in t.get("attrs").and_then(|x| x.as_array()).cloned().unwrap_or_default() {
                    for key in ["nl", "vl"] { if let Some(r) = a[key].as_array() { if r.len() == 2 { ranges.insert((r[0].as_u64().unwrap() as usize, r[1].as_u64().unwrap() as usize)); } } }
                }
                node_start = None;
            }
            "cm" => {
                for (a, z) in [(4usize, 3usize), (4, 4), (2, 1), (4, 0), (2, 0), (4, 2), (4, 1), (5, 3), (3, 3)] {
                    if s + a <= e && e >= z && s + a <= e - z { ranges.insert((s + a, e - z)); }
                }
                node_start = None;
            }
            "tx" => {
                let st = *node_start.get_or_insert(s);
                ranges.insert((st, e));
                if t["last"] == true { node_start = None; }
            }
            _ => { node_start = None; }
        }
    }
    ranges.into_iter().filter(|(s, e)| s < e).filter_map(|(s, e)| decode_w(enc, input, s, e)).collect()
}

fn build_doc(rng: &mut Rng, sm: &[Vec<u8>], malformed: bool) -> Vec<u8> {
    let pick = |rng: &mut Rng| -> Vec<u8> {
        let mut v = Vec::new();
        for _ in 0..(1 + rng.below(3)) {
            if malformed && rng.chance(1, 3) {
                v.push(0x80 + rng.below(0x80) as u8);
            } else if malformed && rng.chance(1, 2) {
                // a truncated multi-byte sequence (every proper prefix of a valid character), followed by ASCII
                let smp = rng.pick(sm);
                if smp.len() > 1 { let k = 1 + rng.below(smp.len() - 1); v.extend_from_slice(&smp[..k]); v.push(b'a' + rng.below(26) as u8); v.push(b'0' + rng.below(10) as u8); }
                else { v.extend_from_slice(&smp[..]); }
            } else { v.extend_from_slice(&rng.pick(sm)[..]); }
            if rng.chance(1, 3) { v.push(b'a' + rng.below(26) as u8); }
        }
        v
    };
    let mut d = Vec::new();
    d.extend_from_slice(b"<p cls=\""); d.extend(pick(rng)); d.extend_from_slice(b"\">"); d.extend(pick(rng));
    d.extend_from_slice(b"<!--"); d.extend(pick(rng)); d.extend_from_slice(b"-->");
    d.extend_from_slice(b"<a h"); d.extend(rng.pick(sm).clone()); d.extend_from_slice(b"f="); d.extend(pick(rng));
    d.extend_from_slice(b" X='"); d.extend(pick(rng)); d.extend_from_slice(b"'>"); d.extend(pick(rng));
    if rng.chance(1, 2) { d.extend_from_slice(b"<b"); d.extend(rng.pick(sm).clone()); d.extend_from_slice(b">t</b"); d.extend(rng.pick(sm).clone()); d.extend_from_slice(b">"); }
    d.extend_from_slice(b"</a></p><title>"); d.extend(pick(rng)); d.extend_from_slice(b"</title>");
    d
}

pub fn job_c13(out_dir: &str, tier: &str, seed: u64) {
    let quick = tier == "quick";
    let mut rng = Rng::new(seed ^ 0xC13);
    let mut sh = Shards::new(out_dir, "c13", 700_000);
    let encs: Vec<&str> = if quick { gen::ENCODINGS_QUICK.to_vec() } else { gen::ENCODINGS_ALL.to_vec() };
    // in the quick tier the other encodings still get a smaller share
    let mut all_encs: Vec<(&str, usize)> = gen::ENCODINGS_ALL.iter().map(|e| (*e, if encs.contains(e) { if quick { 10 } else { 40 } } else { 2 })).collect();
    if !quick { for e in all_encs.iter_mut() { e.1 = 40; } }
    let all = capture_all(false);
    let mut n = 0usize;
    let (mut nread, mut nins, mut nmeta) = (0usize, 0usize, 0usize);
    // ---- (a)(b) what handlers read -----------------------------------------------------------------
    for (label, ndocs) in &all_encs {
        let enc = enc_of(label);
        let sm = samples(enc);
        for di in 0..*ndocs {
            let doc = build_doc(&mut rng, &sm, di % 3 == 2);
            let cfg = gen::merge(&all, &json!({"strict": false, "enc": label}));
            let mut cutsets: Vec<Vec<usize>> = vec![vec![], (1..doc.len()).collect()];
            for c in 1..doc.len() { if (c.saturating_sub(3)..=(c + 1).min(doc.len() - 1)).any(|j| doc[j] >= 0x80) { cutsets.push(vec![c]); } }
            for _ in 0..3 { let mut c: Vec<usize> = (0..3).map(|_| rng.below(doc.len() + 1)).collect(); c.sort_unstable(); cutsets.push(c); }
            let mut seen = std::collections::HashSet::new();
            for cuts in &cutsets {
                let tl = driver::run(&cfg, &doc, cuts, &RunOpts::default());
                let (toks, res) = project(&tl);
                if res != "ok" {
                    // observers only: a failing or panicking run is itself a finding
                    n += 1;
                    let rec = json!({"id": format!("c13-{n}"), "kind": "failed", "res": res});
                    sh.push(&rec, &json!({"id": rec["id"], "cfg": cfg, "input": doc, "cuts": cuts}), None, true);
                    continue;
                }
                let key = Value::Array(toks.clone()).to_string();
                if !seen.insert(key) { sh.evaluations += 1; continue; }
                n += 1; nread += 1;
                let wit = witnesses(enc, &doc, &toks);
                let rec = json!({"id": format!("c13-{n}"), "kind": "read", "enc": enc.name(), "input": doc, "toks": toks, "wit": wit});
                let src = json!({"id": rec["id"], "cfg": cfg, "input": doc, "cuts": cuts});
                sh.push(&rec, &src, None, true);
            }
        }
        // text longer than the decoder's internal buffer, multi-byte characters across the buffer edge
        for (li, len) in [1020usize, 1030, 4090, 4100].iter().enumerate() {
            if quick && !encs.contains(label) && li > 0 { continue; }
            let mut doc = b"<p>".to_vec();
            while doc.len() < *len { if rng.chance(1, 2) { doc.extend_from_slice(&rng.pick(&sm[..])[..]); } else { doc.push(b'a' + rng.below(26) as u8); } }
            doc.extend_from_slice(b"</p><i>"); doc.extend_from_slice(&rng.pick(&sm[..])[..]); doc.extend_from_slice(b"</i>");
            let cfg = gen::merge(&all, &json!({"strict": false, "enc": label}));
            for cuts in [vec![], vec![1024], vec![3, 1027], vec![1000 + rng.below(60)], vec![rng.below(doc.len()), doc.len() - 2]] {
                let tl = driver::run(&cfg, &doc, &cuts, &RunOpts::default());
                let (toks, res) = project(&tl);
                if res != "ok" {
                    // observers only: a failing or panicking run is itself a finding
                    n += 1;
                    let rec = json!({"id": format!("c13-{n}"), "kind": "failed", "res": res});
                    sh.push(&rec, &json!({"id": rec["id"], "cfg": cfg, "input": doc, "cuts": cuts}), None, true);
                    continue;
                }
                n += 1; nread += 1;
                let wit = witnesses(enc, &doc, &toks);
                let rec = json!({"id": format!("c13-{n}"), "kind": "read", "enc": enc.name(), "input": doc, "toks": toks, "wit": wit});
                sh.push(&rec, &json!({"id": rec["id"], "cfg": cfg, "input": doc, "cuts": cuts}), None, true);
            }
        }
    }
    // ---- (c) inserted content ---------------------------------------------------------------------------
    let contents: Vec<&str> = vec!["é", "日本", "😀", "aЯb", "x", "한ก", "€uro", "«q»", "ñandú😀é", ""];
    for label in gen::ENCODINGS_ALL {
        let enc = enc_of(label);
        let input: &[u8] = b"<p>x</p><!--c-->";
        for (ci, content) in contents.iter().enumerate() {
            if quick && !encs.contains(label) && ci % 3 != 0 { continue; }
            // (cfg, insertion offset)
            let variants: Vec<(Value, usize)> = vec![
                (json!({"elem":[{"sel":"p","element":[{"op":"before","a":[content]}]}]}), 0),
                (json!({"elem":[{"sel":"p","element":[{"op":"append","a":[content]}]}]}), 4),
                (json!({"elem":[{"sel":"p","element":[{"op":"after","a":[content, false]}]}]}), 8),
                (json!({"doc":[{"end":[{"op":"append","a":[content]}]}]}), 16),
                (json!({"elem":[{"sel":"p","element":[{"op":"s_prepend","a":[[content]]}]}]}), 3),
                (json!({"doc":[{"comments":[{"op":"after","a":[content]}]}]}), 16),
            ];
            for (vi, (c, p)) in variants.iter().enumerate() {
                if quick && (ci + vi) % 2 == 1 { continue; }
                let cfg = gen::merge(c, &json!({"strict": false, "enc": label}));
                let tl = driver::run(&cfg, input, &[], &RunOpts::default());
                let res = if tl.iter().any(|e| e["e"] == "ret" && e["res"] != "ok") { "err" } else { "ok" };
                let (encoded, _, _) = enc.encode(content);
                n += 1; nins += 1;
                let rec = json!({"id": format!("c13-{n}"), "kind": "insert", "input": input, "p": p, "sink": sink_bytes(&tl), "res": res, "encoded": encoded.as_ref()});
                sh.push(&rec, &json!({"id": rec["id"], "cfg": cfg, "input": input, "cuts": []}), None, true);
            }
        }
    }
    // ---- (c2) inserted content after a meta charset switch: encoded in the *declared* encoding ----------------------
    for (e0, label, meta) in [("utf-8", "windows-1251", "<meta charset=windows-1251>"), ("utf-8", "shift_jis", "<meta http-equiv=content-type content='text/html; charset=shift_jis'>"),
                              ("windows-1252", "koi8-r", "<META CHARSET=koi8-r>"), ("utf-8", "gbk", "<meta charset=gbk>"), ("shift_jis", "utf-8", "<meta charset=utf-8>"),
                              ("utf-8", "windows-1252", "<meta charset=windows-1252>")] {
        let enc1 = enc_of(label);
        let mut input = meta.as_bytes().to_vec();
        let m = input.len();
        input.extend_from_slice(b"<p>x</p><!--c-->");
        for (ci, content) in contents.iter().enumerate() {
            let variants: Vec<(Value, usize)> = vec![
                (json!({"elem":[{"sel":"p","element":[{"op":"before","a":[content]}]}]}), m),
                (json!({"elem":[{"sel":"p","element":[{"op":"append","a":[content]}]}]}), m + 4),
                (json!({"elem":[{"sel":"p","element":[{"op":"after","a":[content, false]}]}]}), m + 8),
                (json!({"doc":[{"end":[{"op":"append","a":[content]}]}]}), m + 16),
                (json!({"elem":[{"sel":"p","element":[{"op":"s_prepend","a":[[content]]}]}]}), m + 3),
                (json!({"doc":[{"comments":[{"op":"after","a":[content]}]}]}), m + 16),
            ];
            for (vi, (c, p)) in variants.iter().enumerate() {
                if quick && (ci + vi) % 2 == 1 && vi != 3 { continue; }
                let cfg = gen::merge(c, &json!({"strict": false, "enc": e0, "meta": true}));
                let cuts: Vec<usize> = if (ci + vi) % 3 == 0 { vec![m] } else { vec![] };
                let tl = driver::run(&cfg, &input, &cuts, &RunOpts::default());
                let res = if tl.iter().any(|e| e["e"] == "ret" && e["res"] != "ok") { "err" } else { "ok" };
                let (encoded, _, _) = enc1.encode(content);
                n += 1; nins += 1;
                let rec = json!({"id": format!("c13-{n}"), "kind": "insert", "input": input, "p": p, "sink": sink_bytes(&tl), "res": res, "encoded": encoded.as_ref()});
                sh.push(&rec, &json!({"id": rec["id"], "cfg": cfg, "input": input, "cuts": cuts}), None, true);
            }
        }
    }
    // ---- (e) configuration-time refusal -------------------------------------------------------------------
    for enc in [encoding_rs::UTF_16LE, encoding_rs::UTF_16BE, encoding_rs::ISO_2022_JP, encoding_rs::REPLACEMENT, encoding_rs::UTF_8,
                encoding_rs::SHIFT_JIS, encoding_rs::GB18030, encoding_rs::X_USER_DEFINED, encoding_rs::WINDOWS_1252, encoding_rs::BIG5, encoding_rs::EUC_KR] {
        n += 1;
        let rec = json!({"id": format!("c13-{n}"), "kind": "config", "label": enc.name(), "accepted": lol_html::AsciiCompatibleEncoding::new(enc).is_some()});
        sh.push(&rec, &json!({"id": rec["id"], "label": enc.name()}), None, true);
    }
    // ---- (d) meta charset -----------------------------------------------------------------------------------
    let metas: Vec<(&str, Option<&str>)> = vec![
        ("<meta charset=windows-1251>", Some("windows-1251")), ("<META CHARSET=\"shift_jis\">", Some("shift_jis")),
        ("<meta http-equiv=content-type content='text/html; charset=koi8-r'>", Some("koi8-r")), ("<meta charset=utf-16>", None),
        ("<meta charset=bogus>", None), ("<meta name=x content=y>", None), ("<meta charset=utf-8>", Some("utf-8")),
        ("<meta http-equiv=Content-Type content=\"text/html;charset=gbk\">", Some("gbk")), ("<meta charset=windows-1252>", Some("windows-1252")),
        // non-ASCII-compatible labels are refused in both forms
        ("<meta http-equiv=content-type content='text/html; charset=utf-16'>", None), ("<meta http-equiv=Content-Type content=\"text/html;charset=utf-16le\">", None),
        ("<meta http-equiv=content-type content='text/html; charset=UTF-16BE'>", None), ("<meta http-equiv=content-type content='text/html; charset=iso-2022-jp'>", None),
        ("<meta charset=utf-16be>", None), ("<meta charset=ISO-2022-JP>", None), ("<meta http-equiv=content-type content='text/html; charset=csiso2022jp'>", None),
        ("<meta http-equiv=content-type content='text/html; charset=replacement'>", None),
    ];
    for mi in 0..(if quick { 400 } else { 6000 }) {
        let e0 = *rng.pick(&["utf-8", "windows-1252", "shift_jis"]);
        let enc0 = enc_of(e0);
        let (m1, l1) = metas[rng.below(metas.len())];
        let (m2, l2) = metas[rng.below(metas.len())];
        // text before / between / after, valid in both the initial and the declared encoding (ASCII + bytes
        // that are letters in single-byte encodings are avoided: use ASCII-only filler plus encoded samples of enc0)
        let s0 = samples(enc0);
        let mut doc = Vec::new();
        doc.extend_from_slice(b"<p t=\""); doc.extend_from_slice(&rng.pick(&s0[..])[..]); doc.extend_from_slice(b"\">"); doc.extend_from_slice(&rng.pick(&s0[..])[..]);
        doc.extend_from_slice(m1.as_bytes());
        let meta1_end = doc.len();
        doc.extend_from_slice(b"<i a="); doc.extend_from_slice(&rng.pick(&s0[..])[..]); doc.extend_from_slice(b">"); doc.extend_from_slice(&rng.pick(&s0[..])[..]); doc.extend_from_slice(b"</i><!--"); doc.extend_from_slice(&rng.pick(&s0[..])[..]); doc.extend_from_slice(b"-->");
        doc.extend_from_slice(m2.as_bytes());
        let meta2_end = doc.len();
        doc.extend_from_slice(&rng.pick(&s0[..])[..]); doc.extend_from_slice(b"</p>");
        let (meta_end, declared) = match (l1, l2) { (Some(l), _) => (meta1_end, Some(l)), (None, Some(l)) => (meta2_end, Some(l)), _ => (0, None) };
        let enc1 = declared.map(enc_of).unwrap_or(enc0);
        let cfg = gen::merge(&all, &json!({"strict": false, "enc": e0, "meta": true}));
        let cuts: Vec<usize> = match mi % 3 { 0 => vec![], 1 => (1..doc.len()).collect(), _ => { let mut c: Vec<usize> = (0..3).map(|_| rng.below(doc.len() + 1)).collect(); c.sort_unstable(); c } };
        let tl = driver::run(&cfg, &doc, &cuts, &RunOpts::default());
        let (toks, res) = project(&tl);
        let nenc = tl.iter().filter(|e| e["e"] == "enc").count();
        // bytes that had reached the sink when the (second) set_encoding arrived
        let mut sink_len = 0usize; let mut seen_enc = 0usize; let mut after_output = false;
        for e in &tl {
            if e["e"] == "chunk" { sink_len += e["b"].as_array().unwrap().len(); }
            if e["e"] == "enc" { seen_enc += 1; if seen_enc == 2 && sink_len > meta_end { after_output = true; } }
        }
        n += 1; nmeta += 1;
        let rec = json!({"id": format!("c13-{n}"), "kind": "meta", "res": res, "input": doc, "metaEnd": meta_end, "same": enc1 == enc0, "nenc": nenc,
            "switchAfterOutput": after_output, "toks": toks, "wit0": witnesses(enc0, &doc, &toks), "wit1": witnesses(enc1, &doc, &toks)});
        sh.push(&rec, &json!({"id": rec["id"], "cfg": cfg, "input": doc, "cuts": cuts}), None, true);
    }
    sh.finish(json!({"rule": "read: all 36 ASCII-compatible encodings (6 in depth in the quick tier) x documents with that encoding's characters in text / comments / attribute names and values / tag names, malformed bytes, text crossing the 1 KiB and 4 KiB decoder buffer x a cut inside every multi-byte character, byte-wise, random cuts (distinct observations only); insert: 10 content strings (mappable, unmappable, non-BMP, empty) x 6 insertion APIs x encodings; config: 11 encodings incl. the 4 non-ASCII-compatible ones; meta: initial encoding x two meta tags (charset / http-equiv / invalid / non-ASCII-compatible labels) x chunkings.",
        "read_records": nread, "insert_records": nins, "meta_records": nmeta}));
}
