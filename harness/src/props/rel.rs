//! Relational jobs (C02 chunk invariance, C06 handler independence): several observations of the real
//! code per record; spec/TraceRel.tla decides the relation.
use crate::driver::{self, RunOpts};
use crate::gen::{self, Rng};
use crate::out::Shards;
use serde_json::{json, Value};
use std::collections::HashSet;

/// Injective rendering of what a handler observed, minus text content and locations.
fn sig(e: &Value) -> String {
    let pick = |keys: &[&str]| -> String {
        let mut m = serde_json::Map::new();
        for k in keys {
            if let Some(v) = e.get(*k) {
                m.insert((*k).to_string(), v.clone());
            }
        }
        Value::Object(m).to_string()
    };
    match e["k"].as_str().unwrap_or("") {
        "el" => {
            // attribute source locations are not part of the comparison
            let mut c = e.clone();
            if let Some(attrs) = c.get_mut("attrs").and_then(|a| a.as_array_mut()) {
                for a in attrs {
                    if let Some(o) = a.as_object_mut() {
                        o.remove("nl");
                        o.remove("vl");
                    }
                }
            }
            let mut m = serde_json::Map::new();
            for k in ["name", "nameraw", "attrs", "ns", "sc", "chc", "removed", "ops", "post", "fail", "q"] {
                if let Some(v) = c.get(k) {
                    m.insert(k.to_string(), v.clone());
                }
            }
            Value::Object(m).to_string()
        }
        "et" => pick(&["name", "nameraw", "removed", "ops", "fail"]),
        "cm" => pick(&["text", "removed", "ops", "post", "fail"]),
        "dt" => pick(&["name", "pub", "sys", "removed", "ops", "fail"]),
        "de" => pick(&["ops", "fail"]),
        "bo" => pick(&["err"]),
        "tx" => pick(&["removed", "ops", "fail"]),
        _ => String::new(),
    }
}

pub fn observation(variant: &str, tl: &[Value], keep: &dyn Fn(&str) -> bool) -> Value {
    let mut evs = Vec::new();
    let mut res = "ok".to_string();
    let mut sink: Vec<u8> = Vec::new();
    for e in tl {
        match e["e"].as_str().unwrap_or("") {
            "chunk" => sink.extend(e["b"].as_array().unwrap().iter().map(|x| x.as_u64().unwrap() as u8)),
            "ret" => {
                if e["res"] != "ok" {
                    res = e["res"].as_str().unwrap().to_string();
                }
            }
            "new" => res = e["res"].as_str().unwrap_or("err").to_string(),
            "ev" => {
                let h = e["h"].as_str().unwrap_or("");
                if !keep(h) {
                    continue;
                }
                let k = e["k"].as_str().unwrap_or("");
                if k == "tx" {
                    // a text op's effect is compared through the sink; which chunk carried it is fragmentation
                    evs.push(json!({"k":"tx","h":h,"sig":"","text":e["text"],"tt":e["tt"],"last":e["last"]}));
                } else {
                    evs.push(json!({"k":k,"h":h,"sig":sig(e),"text":[],"tt":"","last":false}));
                }
            }
            _ => {}
        }
    }
    json!({"variant": variant, "res": res, "sink": sink, "evs": evs})
}

/// Mutating handler sets whose effect does not depend on text fragmentation (text edits only on the
/// chunk flagged last, or the same edit on every chunk).
pub fn invariant_mutating_sets() -> Vec<(&'static str, Value)> {
    vec![
        ("i-insert", json!({"elem":[{"sel":"*","element":[{"op":"before","a":["[b]"]},{"op":"after","a":["[a]"]},{"op":"append","a":["<i>x</i>"]},{"op":"prepend","a":["<p>",false]},
                                                         {"op":"on_end_tag","a":[[{"op":"before","a":["{"]},{"op":"after","a":["}"]}]]}]}],
                            "doc":[{"end":[{"op":"append","a":["END"]}],"text":[{"op":"after","a":["$"],"last":true}],"comments":[{"op":"before","a":["#"]}]}]})),
        ("i-remove", json!({"elem":[{"sel":"a","element":[{"op":"remove"}]},{"sel":"b","element":[{"op":"remove_keep"}]},{"sel":"p","element":[{"op":"set_inner","a":["<u>in</u>"]}]},
                                    {"sel":"div","element":[{"op":"replace","a":["R",false]}]}],
                            "doc":[{"text":[{"op":"remove"}],"comments":[{"op":"set_text","a":["zz"]}],"doctype":[{"op":"remove"}]}]})),
        ("i-attrs", json!({"elem":[{"sel":"a","element":[{"op":"set_attr","a":["href","y\"z"]},{"op":"rm_attr","a":["id"]},{"op":"set_name","a":["b"]},{"op":"get_attr","a":["class"]}]},
                                   {"sel":"[class]","element":[{"op":"set_attr","a":["class","k"]}],"text":[{"op":"replace","a":["T"],"last":true}]},
                                   {"sel":"title, script, textarea, svg","text":[{"op":"before","a":["^"],"last":true}],"comments":[{"op":"remove"}]}]})),
        ("i-starttag", json!({"elem":[{"sel":"div, p, svg *","element":[{"op":"st_before","a":["<"]},{"op":"st_after","a":[">",false]},{"op":"on_end_tag","a":[[{"op":"remove"}]]}]},
                                      {"sel":"span","element":[{"op":"st_remove"}]},{"sel":"b","element":[{"op":"st_replace","a":["<strong>"]},{"op":"on_end_tag","a":[[{"op":"replace","a":["</strong>"]}]]}]}]})),
        ("i-stream", json!({"elem":[{"sel":"*","element":[{"op":"s_append","a":[["a","é",{"bytes":[226,130]},{"bytes":[172]}]]},{"op":"s_before","a":[["<x>"],false]}]}],
                            "doc":[{"comments":[{"op":"s_replace","a":[["c"]]}]}]})),
    ]
}

fn push_product(sh: &mut Shards, prefix: &str, clause: &str, n: &mut usize, cfg: &Value, input: &[u8], base: Value, others: Vec<(Value, Value)>) {
    // dedupe identical observations; the base goes first
    let mut seen: HashSet<String> = HashSet::new();
    seen.insert(format!("{}|{}|{}", base["res"], base["sink"], base["evs"]));
    let mut distinct: Vec<(Value, Value)> = Vec::new();
    let mut evaluations = 1;
    for (o, srcinfo) in others {
        evaluations += 1;
        let key = format!("{}|{}|{}", o["res"], o["sink"], o["evs"]);
        if seen.insert(key) {
            distinct.push((o, srcinfo));
        }
    }
    // one record per group of <= 8 distinct observations (each with the base first)
    let groups: Vec<&[(Value, Value)]> = if distinct.is_empty() { vec![&[]] } else { distinct.chunks(8).collect() };
    for (gi, g) in groups.iter().enumerate() {
        *n += 1;
        let mut obs = vec![base.clone()];
        obs.extend(g.iter().map(|(o, _)| o.clone()));
        let rec = json!({"id": format!("{prefix}-{}", *n), "clauses": [clause], "hs": [], "obs": obs});
        let src = json!({"id": rec["id"], "cfg": cfg, "input": input, "variants": g.iter().map(|(_, s)| s.clone()).collect::<Vec<_>>()});
        let key = format!("{}", rec["obs"]);
        sh.push(&rec, &src, Some(&key), !input.is_empty());
        if gi == 0 {
            sh.evaluations += evaluations - 1;
        }
    }
}

pub fn job_c02(out_dir: &str, tier: &str, seed: u64) {
    let quick = tier == "quick";
    let mut rng = Rng::new(seed ^ 0xC02);
    let mut sh = Shards::new(out_dir, "c02", 1_500_000);
    let mut sets = gen::observer_sets();
    sets.extend(invariant_mutating_sets());
    let mut n = 0usize;
    let all = |_: &str| true;
    let mut inputs = gen::corpus(&mut rng, if quick { 30 } else { 80 }, if quick { 1200 } else { 40000 });
    for _ in 0..(if quick { 200 } else { 5000 }) { inputs.push(gen::random_bytes(&mut rng, 40)); }
    let encs = if quick { gen::ENCODINGS_QUICK } else { gen::ENCODINGS_ALL };
    for (ii, input) in inputs.iter().enumerate() {
        // every input meets the three capture-everything sets; further sets rotate
        let fixed = [1usize, 6, 12];
        let nsets = if ii < 4 * gen::FRAGS.len() { 5 } else { 4 };
        for si in 0..nsets {
            let (_, hs) = if si < 3 { &sets[fixed[(si + ii) % 3]] } else { &sets[(ii + si * 7) % sets.len()] };
            if si < 3 && ii >= 4 * gen::FRAGS.len() && si > 0 { continue; }
            let enc = if ii % 4 == 3 { encs[(ii / 4 + si) % encs.len()] } else { "utf-8" };
            let cfg = gen::merge(hs, &json!({"strict": (ii + si) % 3 != 0, "enc": enc, "mem": {"prealloc": *rng.pick(&[0usize, 4, 1024])}}));
            let base = observation("single-write", &driver::run(&cfg, input, &[], &RunOpts::default()), &all);
            let cutsets = if input.len() <= 90 { gen::cut_sets(input.len(), &mut rng, if quick { 9 } else { 20 }, 2) } else { gen::light_cut_sets(input.len(), &mut rng, 4) };
            let mut others = Vec::new();
            for cuts in cutsets.iter().skip(1) {
                let o = observation("chunked", &driver::run(&cfg, input, cuts, &RunOpts::default()), &all);
                others.push((o, json!({"cuts": cuts})));
            }
            if enc == "utf-8" && !cfg.get("meta").and_then(|x| x.as_bool()).unwrap_or(false) {
                if let Ok(text) = std::str::from_utf8(input) {
                    let (tl, res) = driver::run_rewrite_str(&cfg, text);
                    let mut o = observation("rewrite_str", &tl, &all);
                    match res {
                        Ok(s) => o["sink"] = json!(s.as_bytes()),
                        Err(e) => o["res"] = json!(e),
                    }
                    others.push((o, json!({"rewrite_str": true})));
                }
            }
            push_product(&mut sh, "c02", "C02", &mut n, &cfg, input, base, others);
        }
    }
    // the buffer life cycle (gen::buffer_cycle_cases): five-write schedules that fill, partly consume, empty and refill
    // the parsing buffer, against the single write
    for (bi, (input, scheds)) in gen::buffer_cycle_cases().iter().enumerate() {
        for (hi, hs_idx) in [1usize, 6, 12, 0, 5].iter().enumerate() {
            if quick && (hi + bi) % 2 == 1 && hi > 1 { continue; }
            let (_, hs) = &sets[*hs_idx % sets.len()];
            let cfg = gen::merge(hs, &json!({"strict": false, "enc": "utf-8", "mem": {"prealloc": 1024}}));
            let base = observation("single-write", &driver::run(&cfg, input, &[], &RunOpts::default()), &all);
            let mut others = Vec::new();
            for cuts in scheds {
                let o = observation("chunked", &driver::run(&cfg, input, cuts, &RunOpts::default()), &all);
                others.push((o, json!({"cuts": cuts})));
            }
            push_product(&mut sh, "c02", "C02", &mut n, &cfg, input, base, others);
        }
    }
    sh.finish(json!({"rule": "for every (configuration, input): the single-write observation and every distinct observation found among the schedules (every 1-cut, 2-cuts for short inputs, byte-wise, empty writes, random k-cuts) plus rewrite_str; inputs: every fragment, ordered pairs over a seed-rotated pool, seeded documents / fragment sequences / random bytes / non-ASCII; 13 observer and 5 fragmentation-invariant mutating handler sets x encodings x prealloc. evaluations counts schedules run; distinct = distinct product records."}));
}

pub fn job_c06(out_dir: &str, tier: &str, seed: u64) {
    let quick = tier == "quick";
    let mut rng = Rng::new(seed ^ 0xC06);
    let mut sh = Shards::new(out_dir, "c06", 1_500_000);
    let mut n = 0usize;
    let obs = json!([]);
    // H: the handlers whose view must not change (registered first)
    let hsets: Vec<Value> = vec![
        json!({}),
        json!({"elem":[{"sel":"a","element":[{"op":"on_end_tag","a":[[]]}]}]}),
        json!({"elem":[{"sel":"a[href]","element":obs,"text":obs}]}),
        json!({"elem":[{"sel":"title","text":obs},{"sel":"script","text":obs,"comments":obs},{"sel":"svg, math","text":obs,"element":obs}]}),
        json!({"elem":[{"sel":"div a","element":obs},{"sel":"p > b","comments":obs,"text":obs}]}),
        json!({"elem":[{"sel":"b, i, td, option","element":[{"op":"before","a":["[b]"]},{"op":"append","a":["[x]"]}]}]}),
        json!({"elem":[{"sel":"*","element":obs}]}),
        json!({"elem":[{"sel":"[id]","element":obs},{"sel":"span:nth-child(2)","element":obs},{"sel":"mi, desc, foreignobject","element":obs,"text":obs}]}),
        json!({"doc":[{"comments":obs}]}),
        json!({"doc":[{"doctype":obs,"end":obs}], "elem":[{"sel":"textarea, style, xmp, plaintext","text":obs}]}),
    ];
    // O: observers added on top (registered after H's handlers)
    let osets: Vec<Value> = vec![
        json!({"doc":[{"text":obs}]}),
        json!({"doc":[{"comments":obs}]}),
        json!({"doc":[{"doctype":obs}]}),
        json!({"elem":[{"sel":"*","element":obs}]}),
        json!({"elem":[{"sel":"*","element":[{"op":"on_end_tag","a":[[]]}],"text":obs,"comments":obs}]}),
        json!({"elem":[{"sel":"a","element":obs}]}),
        json!({"elem":[{"sel":"div > *","text":obs}]}),
        json!({"elem":[{"sel":"[x]","element":obs},{"sel":"script","element":obs},{"sel":"title","comments":obs}]}),
        json!({"elem":[{"sel":"nomatch","element":obs,"text":obs}]}),
        json!({"elem":[{"sel":"svg","text":obs},{"sel":"font","element":obs}],"doc":[{"end":obs}]}),
    ];
    let concat = |h: &Value, o: &Value| -> Value {
        let mut c = json!({});
        for key in ["elem", "doc"] {
            let mut v: Vec<Value> = h.get(key).and_then(|x| x.as_array()).cloned().unwrap_or_default();
            v.extend(o.get(key).and_then(|x| x.as_array()).cloned().unwrap_or_default());
            if !v.is_empty() {
                c[key] = json!(v);
            }
        }
        c
    };
    let mut inputs = gen::corpus(&mut rng, if quick { 36 } else { 70 }, if quick { 5000 } else { 40000 });
    // transition coverage from the specification (spec/TokCover.tla): every control state of the syntax table x every
    // word, run by the tag scanner (H alone) and by the lexer (H + O)
    let cover = gen::cover_inputs(quick, false);
    let cstride = if quick { 3 } else { 1 };
    for (i, (inp, _, _)) in cover.iter().enumerate() { if i % cstride == 0 { inputs.push(inp.clone()); } }
    for (ii, input) in inputs.iter().enumerate() {
        let nh = if ii < 4 * gen::FRAGS.len() { 3 } else { 2 };
        for hi in 0..nh {
            let h = &hsets[(ii + hi * 3) % hsets.len()];
            let n_e = h.get("elem").and_then(|x| x.as_array()).map(|a| a.len()).unwrap_or(0);
            let n_d = h.get("doc").and_then(|x| x.as_array()).map(|a| a.len()).unwrap_or(0);
            let keep = move |id: &str| -> bool {
                // ids are e<i>.* / d<j>.*
                let idx: usize = id[1..].split(|c: char| !c.is_ascii_digit()).next().and_then(|s| s.parse().ok()).unwrap_or(usize::MAX);
                (id.starts_with('e') && idx < n_e) || (id.starts_with('d') && idx < n_d)
            };
            let strict = (ii + hi) % 4 == 0;
            let settings = json!({"strict": strict, "enc": "utf-8"});
            let cfg_h = gen::merge(h, &settings);
            let base = observation("H", &driver::run(&cfg_h, input, &[], &RunOpts::default()), &keep);
            let mut others = Vec::new();
            for oi in 0..(if quick { 5 } else { osets.len() }) {
                let o = &osets[(ii + oi * 3 + hi) % osets.len()];
                let cfg_ho = gen::merge(&concat(h, o), &settings);
                let cs = if input.len() <= 60 && oi == 0 { gen::cut_sets(input.len(), &mut rng, 0, 1) } else { gen::light_cut_sets(input.len(), &mut rng, 1) };
                for cuts in cs {
                    let ob = observation("H+O", &driver::run(&cfg_ho, input, &cuts, &RunOpts::default()), &keep);
                    others.push((ob, json!({"cfg_ho": cfg_ho, "cuts": cuts})));
                }
            }
            push_product(&mut sh, "c06", "C06", &mut n, &cfg_h, input, base, others);
        }
    }
    sh.finish(json!({"rule": "for every (input, H): the observation of H's handlers and the sink under H alone (single write) versus under H plus each of several observer sets O (document text/comments/doctype, '*' element, '*' with end-tag/text/comments, sparse selectors, non-matching selectors) x schedules (single, byte-wise, random); 10 H sets (incl. a mutating one), 10 O sets; inputs as in C02. Only H's handlers' events are compared (projection), plus all sink bytes."}));
}

pub fn replay(job: &str, src: &Value, out_dir: &str) {
    let input: Vec<u8> = src["input"].as_array().map(|a| a.iter().map(|x| x.as_u64().unwrap() as u8).collect()).unwrap_or_default();
    let cfg = &src["cfg"];
    let mut sh = Shards::new(out_dir, job, 50_000_000);
    let all = |_: &str| true;
    let n_e = cfg.get("elem").and_then(|x| x.as_array()).map(|a| a.len()).unwrap_or(0);
    let n_d = cfg.get("doc").and_then(|x| x.as_array()).map(|a| a.len()).unwrap_or(0);
    let keep_h = move |id: &str| -> bool {
        let idx: usize = id[1..].split(|c: char| !c.is_ascii_digit()).next().and_then(|s| s.parse().ok()).unwrap_or(usize::MAX);
        (id.starts_with('e') && idx < n_e) || (id.starts_with('d') && idx < n_d)
    };
    let is06 = job == "c06";
    let keep: &dyn Fn(&str) -> bool = if is06 { &keep_h } else { &all };
    let mut obs = vec![observation("base", &driver::run(cfg, &input, &[], &RunOpts::default()), keep)];
    for v in src["variants"].as_array().cloned().unwrap_or_default() {
        let cuts: Vec<usize> = v["cuts"].as_array().map(|a| a.iter().map(|x| x.as_u64().unwrap() as usize).collect()).unwrap_or_default();
        if v.get("rewrite_str").is_some() {
            let (tl, res) = driver::run_rewrite_str(cfg, std::str::from_utf8(&input).unwrap_or(""));
            let mut o = observation("rewrite_str", &tl, keep);
            match res { Ok(s) => o["sink"] = json!(s.as_bytes()), Err(e) => o["res"] = json!(e) }
            obs.push(o);
        } else {
            let c = v.get("cfg_ho").unwrap_or(cfg);
            obs.push(observation("variant", &driver::run(c, &input, &cuts, &RunOpts::default()), keep));
        }
    }
    let rec = json!({"id": "replay", "clauses": [if is06 { "C06" } else { "C02" }], "hs": [], "obs": obs});
    sh.push(&rec, src, None, true);
    sh.finish(json!({}));
}
