pub mod lat;
pub mod rel;
pub mod scope;
pub mod sel;
pub mod stream;
pub mod tok;
