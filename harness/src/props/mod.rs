pub mod stream;
