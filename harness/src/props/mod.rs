pub mod stream;
pub mod tok;
