pub mod edit;
pub mod lat;
pub mod rel;
pub mod safe;
pub mod scope;
pub mod sel;
pub mod stream;
pub mod tok;
