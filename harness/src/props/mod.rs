pub mod lat;
pub mod rel;
pub mod stream;
pub mod tok;
