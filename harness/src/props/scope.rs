//! C05 job: documents with text / comments / doctype / tags, selector sets with every combination of
//! element / text / comments / end-tag / document handlers; the invocation log goes to spec/TraceScope.tla.
use crate::driver::{self, RunOpts};
use crate::gen::Rng;
use crate::out::Shards;
use serde_json::{json, Value};

const NAMES: &[&str] = &["a", "b", "div", "p", "br", "img", "span", "svg", "path", "g", "x-y", "title", "math", "mi", "annotation-xml", "b"];

fn b(s: &str) -> Vec<u8> { s.as_bytes().to_vec() }

/// (items, html, ranges[(start,end)])
pub fn gen_doc(rng: &mut Rng, max_items: usize) -> (Vec<Value>, Vec<u8>, Vec<(usize, usize)>) {
    let mut items: Vec<Value> = Vec::new();
    let mut html: Vec<u8> = Vec::new();
    let mut ranges: Vec<(usize, usize)> = Vec::new();
    let mut open: Vec<&str> = Vec::new();
    if rng.chance(1, 4) {
        ranges.push((0, 15));
        html.extend_from_slice(b"<!DOCTYPE html>");
        items.push(json!({"k":"dt"}));
    }
    let n = 1 + rng.below(max_items);
    let mut last_text = false;
    for _ in 0..n {
        let r = rng.below(12);
        let in_title = open.last() == Some(&"title");
        if r < 5 && !in_title {
            let name = *rng.pick(NAMES);
            let mut attrs: Vec<(String, String)> = Vec::new();
            // 0-2 attributes with distinct names; the source may spell a name in any case
            for _ in 0..rng.below(3) {
                let an = *rng.pick(&["x", "class", "id"]);
                if attrs.iter().any(|(a, _): &(String, String)| a.eq_ignore_ascii_case(an)) { continue; }
                let shown = match rng.below(6) { 0 => an.to_ascii_uppercase(), 1 => { let mut c = an.to_string(); c[..1].make_ascii_uppercase(); c } _ => an.to_string() };
                attrs.push((shown, rng.pick(&["p", "q", "p q"]).to_string()));
            }
            let sc = rng.chance(1, 8) && name != "title";
            let s = html.len();
            html.extend_from_slice(format!("<{name}").as_bytes());
            for (an, av) in &attrs { html.extend_from_slice(format!(" {an}=\"{av}\"").as_bytes()); }
            html.extend_from_slice(if sc { b"/>" } else { b">" });
            ranges.push((s, html.len()));
            items.push(json!({"k":"st","n":b(name),"attrs":attrs.iter().map(|(a, v)| json!([b(a), b(v)])).collect::<Vec<_>>(),"sc":sc,"ns":"html"}));
            open.push(name);
            last_text = false;
        } else if r < 8 {
            let name = if in_title { "title" } else if !open.is_empty() && rng.chance(4, 5) {
                let k = if rng.chance(2, 3) { open.len() - 1 } else { rng.below(open.len()) };
                open[k]
            } else { *rng.pick(NAMES) };
            if let Some(k) = open.iter().rposition(|&o| o == name) { open.truncate(k); }
            let s = html.len();
            html.extend_from_slice(format!("</{name}>").as_bytes());
            ranges.push((s, html.len()));
            items.push(json!({"k":"et","n":b(name)}));
            last_text = false;
        } else if r < 10 && !in_title {
            let s = html.len();
            html.extend_from_slice(format!("<!--c{}-->", rng.below(10)).as_bytes());
            ranges.push((s, html.len()));
            items.push(json!({"k":"cm"}));
            last_text = false;
        } else if !last_text {
            let s = html.len();
            html.extend_from_slice(rng.pick(&["text", "x", "a &amp; b", "hello world ", "é"]).as_bytes());
            ranges.push((s, html.len()));
            items.push(json!({"k":"tx"}));
            last_text = true;
        }
    }
    (items, html, ranges)
}

/// Documents with SVG / MathML islands: integration points with HTML inside, names the tag-name hash
/// cannot represent, CDATA sections, self-closing syntax; everything explicitly closed.
pub fn gen_foreign_items(rng: &mut Rng, max_nodes: usize) -> (Vec<Value>, Vec<u8>, Vec<(usize, usize)>) {
    struct G { items: Vec<Value>, html: Vec<u8>, ranges: Vec<(usize, usize)>, budget: usize, last_text: bool }
    fn push(g: &mut G, item: Value, bytes: &[u8]) {
        let s = g.html.len();
        g.html.extend_from_slice(bytes);
        g.ranges.push((s, g.html.len()));
        g.items.push(item);
    }
    fn node(rng: &mut Rng, g: &mut G, ns: u8, depth: usize) {
        if g.budget == 0 { return; }
        g.budget -= 1;
        let r = rng.below(12);
        if r < 2 {
            if !g.last_text { push(g, json!({"k":"tx"}), rng.pick(&["t", "1 ", "x&amp;y", "é"]).as_bytes()); g.last_text = true; }
            return;
        }
        if r == 2 { push(g, json!({"k":"cm"}), b"<!--c-->"); g.last_text = false; return; }
        if r == 3 && ns != 0 {
            push(g, json!({"k":"raw"}), b"<![CDATA[");
            push(g, json!({"k":"tx"}), rng.pick(&["x<y", "<b>", "]] >"]).as_bytes());
            push(g, json!({"k":"raw"}), b"]]>");
            g.last_text = false;
            return;
        }
        let html_names: &[&str] = &["div", "b", "span", "x-y", "a", "p", "i"];
        let svg_names: &[&str] = &["g", "path", "x-unit", "text", "a", "title", "desc", "foreignObject"];
        let math_names: &[&str] = &["mrow", "mi", "mo", "mn", "mtext", "annotation-xml", "x-y", "semantics"];
        let (name, child_ns): (&str, u8) = match ns {
            0 => if depth < 3 && rng.chance(1, 3) { if rng.chance(1, 2) { ("svg", 1) } else { ("math", 2) } } else { (*rng.pick(html_names), 0) },
            1 => { let n = *rng.pick(svg_names); (n, if matches!(n, "title" | "desc" | "foreignObject") { 0 } else { 1 }) }
            _ => { let n = *rng.pick(math_names); (n, if matches!(n, "mi" | "mo" | "mn" | "mtext") { 0 } else { 2 }) }
        };
        let mut attrs = String::new();
        let mut child_ns = child_ns;
        if name == "annotation-xml" && rng.chance(2, 3) { attrs.push_str(" encoding=\"text/html\""); child_ns = 0; }
        let mut alist: Vec<Value> = Vec::new();
        if attrs.contains("encoding") { alist.push(json!([b("encoding"), b("text/html")])); }
        if rng.chance(1, 4) { attrs.push_str(" class=\"p\""); alist.push(json!([b("class"), b("p")])); }
        // breakout tags (p, b, div, span, i ...) would leave foreign content: only used in HTML context here
        let sc = ns != 0 && rng.chance(1, 6);
        let tag = format!("<{name}{attrs}{}>", if sc { "/" } else { "" });
        push(g, json!({"k":"st","n":b(name),"attrs":alist,"sc":sc,"ns": match ns { 0 => "html", 1 => "svg", _ => "mathml" }}), tag.as_bytes());
        g.last_text = false;
        if sc { return; }
        for _ in 0..rng.below(4) { node(rng, g, child_ns, depth + 1); }
        push(g, json!({"k":"et","n":b(name)}), format!("</{name}>").as_bytes());
        g.last_text = false;
    }
    let mut g = G { items: vec![], html: vec![], ranges: vec![], budget: 2 + rng.below(max_nodes), last_text: false };
    while g.budget > 0 { node(rng, &mut g, 0, 0); }
    (g.items, g.html, g.ranges)
}

fn gen_simple_selector(rng: &mut Rng) -> (Value, String) {
    // simple grammar with a good hit rate (the full grammar is C04's business)
    let mut comps: Vec<(String, Value)> = Vec::new();
    let n = 1 + rng.below(2);
    for i in 0..n {
        let comb = if i == 0 { "" } else if rng.chance(1, 2) { ">" } else { " " };
        let (txt, comp) = match rng.below(6) {
            0 => ("*".to_string(), json!([{"t":"univ"}])),
            1 | 2 | 3 => { let nm = if rng.chance(1, 4) { *rng.pick(&["mi", "x-y", "g", "title", "foreignobject", "mtext", "annotation-xml", "x-unit", "i", "text"]) } else { *rng.pick(NAMES) }; (nm.to_string(), json!([{"t":"type","n":b(nm)}])) }
            4 => { let c = *rng.pick(&["p", "q"]); (format!(".{c}"), json!([{"t":"class","v":b(c)}])) }
            _ => { let nm = *rng.pick(NAMES); (format!("{nm}[x]"), json!([{"t":"type","n":b(nm)},{"t":"attr","n":b("x"),"op":"","v":[],"cs":""}])) }
        };
        comps.push((format!("{}{}", match comb { ">" => " > ", " " => " ", _ => "" }, txt), json!({"comb": comb, "comp": comp})));
    }
    (json!([comps.iter().map(|c| c.1.clone()).collect::<Vec<_>>()]), comps.iter().map(|c| c.0.clone()).collect::<Vec<_>>().join(""))
}

fn project(tl: &[Value], ranges: &[(usize, usize)], items: &[Value]) -> (Vec<Value>, String) {
    let mut evs = Vec::new();
    let mut res = "ok".to_string();
    let ndoc = items.len();
    for e in tl {
        if e["e"] == "ret" && e["res"] != "ok" { res = e["res"].as_str().unwrap().to_string(); }
        if e["e"] == "new" { res = "err:cfg".to_string(); }
        if e["e"] != "ev" { continue; }
        let k = e["k"].as_str().unwrap();
        let h = e["h"].as_str().unwrap();
        let cls = &h[0..1];
        let idx: usize = h[1..].split(|c: char| !c.is_ascii_digit()).next().unwrap().parse::<usize>().unwrap() + 1;
        let item = if k == "de" { ndoc + 1 } else {
            let s = e["loc"][0].as_u64().unwrap() as usize;
            let en = e["loc"][1].as_u64().unwrap() as usize;
            if k == "tx" {
                // a chunk lies inside its text item; the empty final chunk sits at its end
                ranges.iter().enumerate().position(|(i, &(a, z))| items[i]["k"] == "tx" && a <= s && en <= z && (s < z || s == en)).map(|p| p + 1).unwrap_or(0)
            } else {
                ranges.iter().position(|&(a, z)| a == s && z == en).map(|p| p + 1).unwrap_or(0)
            }
        };
        evs.push(json!({"k": k, "item": item, "cls": cls, "idx": idx, "last": e.get("last").and_then(|x| x.as_bool()).unwrap_or(false)}));
    }
    (evs, res)
}

pub fn job_c05(out_dir: &str, tier: &str, seed: u64) {
    let quick = tier == "quick";
    let mut rng = Rng::new(seed ^ 0xC05);
    let mut sh = Shards::new(out_dir, "c05", 500_000);
    let ncases = if quick { 10000 } else { 120000 };
    let mut n = 0usize;
    for _ in 0..ncases {
        let (mut items, html, ranges) = if rng.chance(1, 3) { gen_foreign_items(&mut rng, 12) } else { gen_doc(&mut rng, 12) };
        // namespaces as reported by lol-html (for self-closing foreign elements only)
        let ptl = driver::run(&json!({"elem":[{"sel":"*","element":[]}],"strict":false}), &html, &[], &RunOpts::default());
        for e in &ptl {
            if e["e"] == "ev" && e["k"] == "el" {
                let s = e["loc"][0].as_u64().unwrap() as usize;
                if let Some(p) = ranges.iter().position(|&(a, _)| a == s) {
                    items[p]["ns"] = json!(match e["ns"].as_str().unwrap_or("") { "http://www.w3.org/2000/svg" => "svg", "http://www.w3.org/1998/Math/MathML" => "mathml", _ => "html" });
                }
            }
        }
        // mostly 0-3 selector handlers; sometimes more than a machine word's worth of them (match-id sets)
        let nsel = if rng.chance(1, 40) { 60 + rng.below(45) } else { rng.below(4) };
        let mut elem_h = Vec::new();
        let mut elem_cfg = Vec::new();
        let removing = rng.chance(1, 5);
        for _ in 0..nsel {
            let (ast, css) = gen_simple_selector(&mut rng);
            let (el, tx, cm) = (rng.chance(2, 3), rng.chance(1, 2), rng.chance(1, 2));
            elem_h.push(json!({"sel": ast, "el": el, "tx": tx, "cm": cm}));
            let mut c = json!({"sel": css});
            if el {
                let mut ops = vec![json!({"op":"on_end_tag","a":[[]]})];
                if removing && rng.chance(1, 2) { ops.push(json!({"op":"remove"})); }
                c["element"] = json!(ops);
            }
            if tx { c["text"] = json!([]); }
            if cm { c["comments"] = json!([]); }
            elem_cfg.push(c);
        }
        let ndoc = rng.below(3);
        let mut doc_h = Vec::new();
        let mut doc_cfg = Vec::new();
        for _ in 0..ndoc {
            let (dt, cm, tx, de) = (rng.chance(1, 2), rng.chance(1, 2), rng.chance(1, 2), rng.chance(1, 2));
            doc_h.push(json!({"dt": dt, "cm": cm, "tx": tx, "de": de}));
            let mut c = json!({});
            if dt { c["doctype"] = json!([]); }
            if cm { c["comments"] = json!([]); }
            if tx { c["text"] = json!([]); }
            if de { c["end"] = json!([]); }
            doc_cfg.push(c);
        }
        let cfg = json!({"elem": elem_cfg, "doc": doc_cfg, "strict": false});
        let mut obs = Vec::new();
        let mut seen = std::collections::HashSet::new();
        let k = 1 + rng.below(3);
        let mut cuts: Vec<usize> = (0..k).map(|_| rng.below(html.len() + 1)).collect(); cuts.sort_unstable();
        for (variant, c) in [("single", vec![]), ("bytewise", (1..html.len()).collect::<Vec<_>>()), ("random-cuts", cuts.clone())] {
            let tl = driver::run(&cfg, &html, &c, &RunOpts::default());
            let (evs, res) = project(&tl, &ranges, &items);
            let key = format!("{}|{}", res, Value::Array(evs.clone()));
            if seen.insert(key) { obs.push(json!({"variant": variant, "res": res, "evs": evs})); }
        }
        n += 1;
        let rec = json!({"id": format!("c05-{n}"), "doc": items, "elemH": elem_h, "docH": doc_h, "obs": obs});
        let src = json!({"id": rec["id"], "cfg": cfg, "html": String::from_utf8_lossy(&html), "input": html, "cuts": cuts});
        let key = format!("{}|{}|{}|{}", rec["doc"], rec["elemH"], rec["docH"], rec["obs"]);
        sh.push(&rec, &src, Some(&key), nsel + ndoc > 0);
    }
    // replay of the design-level model (spec/Handlers.tla, MC_Handlers): every (document, handler set) of the bounded
    // instance is rendered and run on the real code; judged like any other record
    let path = std::env::var("VERIF_REPLAY_FILE").unwrap_or_default();
    let text = std::fs::read_to_string(&path).unwrap_or_default();
    let lines: Vec<&str> = text.lines().filter(|l| l.contains("\"hdoc\"")).collect();
    let stride = if quick { (lines.len() / 5000).max(1) } else { (lines.len() / 60000).max(1) };
    let mut replayed = 0usize;
    for (li, line) in lines.iter().enumerate() {
        if li % stride != 0 { continue; }
        let v: Value = match serde_json::from_str(line) { Ok(v) => v, Err(_) => continue };
        let items: Vec<Value> = v["hdoc"].as_array().cloned().unwrap_or_default();
        // adjacent text items would be one text node; foreign items need their context: not renderable one to one
        if items.windows(2).any(|w| w[0]["k"] == "tx" && w[1]["k"] == "tx") { continue; }
        if items.iter().any(|t| t["k"] == "st" && t["ns"] != "html") { continue; }
        let mut html: Vec<u8> = Vec::new(); let mut ranges: Vec<(usize, usize)> = Vec::new();
        let bytes = |x: &Value| -> Vec<u8> { x.as_array().map(|a| a.iter().map(|c| c.as_u64().unwrap_or(63) as u8).collect()).unwrap_or_default() };
        for (ix, t) in items.iter().enumerate() {
            let s = html.len();
            match t["k"].as_str().unwrap_or("") {
                "st" => { html.push(b'<'); html.extend(bytes(&t["n"]));
                          for a in t["attrs"].as_array().cloned().unwrap_or_default() { html.push(b' '); html.extend(bytes(&a[0])); html.extend_from_slice(b"=\""); html.extend(bytes(&a[1])); html.push(b'"'); }
                          html.extend_from_slice(if t["sc"] == true { b"/>" } else { b">" }); }
                "et" => { html.extend_from_slice(b"</"); html.extend(bytes(&t["n"])); html.push(b'>'); }
                "tx" => html.extend_from_slice(format!("t{ix}").as_bytes()),
                "cm" => html.extend_from_slice(b"<!--c-->"),
                "dt" => html.extend_from_slice(b"<!DOCTYPE html>"),
                _ => {}
            }
            ranges.push((s, html.len()));
        }
        let mut elem_h = Vec::new(); let mut elem_cfg = Vec::new();
        for e in v["hs"]["elemH"].as_array().cloned().unwrap_or_default() {
            let css = crate::props::sel::render_selector(&e["sel"]);
            elem_h.push(json!({"sel": e["sel"], "el": e["el"], "tx": e["tx"], "cm": e["cm"], "et": e["et"]}));
            let mut c = json!({"sel": css});
            if e["el"] == true { c["element"] = if e["et"] == true { json!([{"op":"on_end_tag","a":[[]]}]) } else { json!([]) }; }
            if e["tx"] == true { c["text"] = json!([]); }
            if e["cm"] == true { c["comments"] = json!([]); }
            elem_cfg.push(c);
        }
        let mut doc_h = Vec::new(); let mut doc_cfg = Vec::new();
        for d in v["hs"]["docH"].as_array().cloned().unwrap_or_default() {
            doc_h.push(json!({"dt": d["dt"], "cm": d["cm"], "tx": d["tx"], "de": d["de"]}));
            let mut c = json!({});
            if d["dt"] == true { c["doctype"] = json!([]); }
            if d["cm"] == true { c["comments"] = json!([]); }
            if d["tx"] == true { c["text"] = json!([]); }
            if d["de"] == true { c["end"] = json!([]); }
            doc_cfg.push(c);
        }
        if elem_h.is_empty() && doc_h.is_empty() { continue; }
        let cfg = json!({"elem": elem_cfg, "doc": doc_cfg, "strict": false});
        let mut obs = Vec::new(); let mut seen = std::collections::HashSet::new();
        for (variant, c) in [("single", vec![]), ("bytewise", (1..html.len()).collect::<Vec<_>>())] {
            let tl = driver::run(&cfg, &html, &c, &RunOpts::default());
            let (evs, res) = project(&tl, &ranges, &items);
            let key = format!("{}|{}", res, Value::Array(evs.clone()));
            if seen.insert(key) { obs.push(json!({"variant": variant, "res": res, "evs": evs})); }
        }
        n += 1; replayed += 1;
        let rec = json!({"id": format!("c05-{n}"), "doc": items, "elemH": elem_h, "docH": doc_h, "obs": obs});
        let src = json!({"id": rec["id"], "cfg": cfg, "html": String::from_utf8_lossy(&html), "input": html, "cuts": [], "replayed_from": "MC_Handlers"});
        let key = format!("{}|{}|{}|{}", rec["doc"], rec["elemH"], rec["docH"], rec["obs"]);
        sh.push(&rec, &src, Some(&key), true);
    }
    eprintln!("c05: replayed {replayed} model cases");
    sh.finish(json!({"rule": "seeded documents of <= 12 items (doctype, start/end tags over 12 names incl. voids, svg island, title (RCDATA), self-closing syntax, mis-nesting, stray and ancestor-closing end tags, unclosed elements, comments, text) x 0-3 selector handlers (type, *, .class, name[attr], child/descendant) each with any combination of element(+end-tag) / text / comments handlers, optionally removing the matched element, x 0-2 document handler records (doctype / comments / text / end); observed under single write, byte-wise and random cuts. Non-trivial = at least one handler registered."}));
}
