//! C09 job: cumulative output after every write of a chunked run versus a fresh rewriter given the same
//! prefix in one write (both real); judged by spec/TraceLat.tla.
use crate::driver::{self, RunOpts};
use crate::gen::{self, Rng};
use crate::out::Shards;
use crate::props::stream::has_text_handler;
use serde_json::{json, Value};

fn emitted_after_writes(tl: &[Value]) -> Vec<usize> {
    let mut v = Vec::new();
    let mut in_write = false;
    for e in tl {
        if e["e"] == "call" { in_write = e["op"] == "write"; }
        if e["e"] == "ret" && in_write {
            v.push(e["sl"].as_u64().unwrap_or(0) as usize);
            in_write = false;
        }
    }
    v
}

fn is_html_only(input: &[u8]) -> bool {
    let low = input.to_ascii_lowercase();
    let has = |n: &[u8]| low.windows(n.len()).any(|w| w == n);
    !(has(b"<svg") || has(b"<math"))
}

pub fn job_c09(out_dir: &str, tier: &str, seed: u64) {
    let quick = tier == "quick";
    let mut rng = Rng::new(seed ^ 0xC09);
    let mut sh = Shards::new(out_dir, "c09", 800_000);
    let obs = json!([]);
    let kinds: Vec<(&str, Value)> = vec![
        ("none", json!({})),
        ("nomatch", json!({"elem":[{"sel":"nomatch","element":obs},{"sel":"x > y[z]","element":obs}]})),
        ("observers", json!({"doc":[{"doctype":obs,"comments":obs,"text":obs,"end":obs}]})),
        ("observers", json!({"elem":[{"sel":"*","element":obs}]})),
        ("observers", json!({"elem":[{"sel":"*","element":[{"op":"on_end_tag","a":[[]]}],"comments":obs}],"doc":[{"doctype":obs}]})),
        ("observers", json!({"elem":[{"sel":"a","element":obs},{"sel":"title","text":obs}]})),
    ];
    let mut inputs = gen::corpus(&mut rng, if quick { 24 } else { 70 }, if quick { 800 } else { 20000 });
    for _ in 0..(if quick { 150 } else { 4000 }) { inputs.push(gen::random_bytes(&mut rng, 30)); }
    // foreign content: tags the scanner hands to the lexer (integration points, font, unhashable names), text after them
    for s in ["<svg><title>Hello, world</title><desc a=b>d</desc></svg>", "<svg><defs><linearGradient id=g x1=0><stop offset=1 /></linearGradient></defs>text</svg>",
              "<math><mi mathvariant=normal>x</mi><mo>+</mo> text <annotation-xml encoding=text/html><b>y</b></annotation-xml> tail</math>",
              "<svg><font color=red>a</font><font-face x=y>b</font-face><foreignObject width=1><p>para</p></foreignObject> t</svg>",
              "<math><verylongmathname1 a=b>t</verylongmathname1><x-y c=d>u</x-y></math> after", "<svg><feGaussianBlur stdDeviation=2 /><custom-element attr='v'>t</custom-element></svg>"] {
        inputs.push(s.as_bytes().to_vec());
    }
    for _ in 0..(if quick { 300 } else { 6000 }) { inputs.push(gen::foreign_doc(&mut rng, 8)); }
    let mut n = 0usize;
    for (ii, input) in inputs.iter().enumerate() {
        if input.is_empty() { continue; }
        let nk = if ii < gen::FRAGS.len() { kinds.len() } else { 2 };
        for ki in 0..nk {
            let (kind, hs) = &kinds[if ii < gen::FRAGS.len() { ki } else { (ii + ki * 2) % kinds.len() }];
            let cfg = gen::merge(hs, &json!({"strict": false, "enc": "utf-8"}));
            // text that a handler captured is re-encoded (C01's documented exception, decided under C13):
            // byte counts are only comparable when the input round-trips
            if has_text_handler(&cfg) && std::str::from_utf8(input).is_err() { continue; }
            // fresh rewriter, one write per prefix
            let fresh_all: Vec<usize> = (1..=input.len()).map(|k| {
                let tl = driver::run(&cfg, &input[..k], &[], &RunOpts { no_end: true, ..RunOpts::default() });
                *emitted_after_writes(&tl).first().unwrap_or(&0)
            }).collect();
            let mut schedules: Vec<Vec<usize>> = vec![(1..input.len()).collect()];
            for _ in 0..2 {
                let k = 1 + rng.below(4);
                let mut c: Vec<usize> = (0..k).map(|_| 1 + rng.below(input.len())).collect();
                c.sort_unstable(); c.dedup();
                schedules.push(c);
            }
            for cuts in schedules {
                let tl = driver::run(&cfg, input, &cuts, &RunOpts { no_end: true, ..RunOpts::default() });
                let emitted = emitted_after_writes(&tl);
                // cumulative bytes written after each write
                let mut written: Vec<usize> = cuts.iter().cloned().filter(|&c| c <= input.len()).collect();
                written.push(input.len());
                if written.len() != emitted.len() {
                    // non-strict, no failing handler, no limit: a write cannot fail
                    let why = tl.iter().filter(|e| e["e"] == "ret" && e["res"] != "ok").map(|e| e["res"].as_str().unwrap_or("?").to_string()).next().unwrap_or_default();
                    let rec = json!({"id": format!("c09-{}", { n += 1; n }), "failed": why});
                    sh.push(&rec, &json!({"id": rec["id"], "cfg": cfg, "input": input, "cuts": cuts, "kind": kind}), None, true);
                    continue;
                }
                // empty prefixes (leading empty write) have nothing to compare
                let idx: Vec<usize> = (0..written.len()).filter(|&i| written[i] >= 1).collect();
                let rec = json!({"id": format!("c09-{}", { n += 1; n }), "clauses": ["C09"], "kind": kind, "texth": has_text_handler(&cfg),
                    "html": is_html_only(input), "input": input,
                    "cuts": idx.iter().map(|&i| written[i]).collect::<Vec<_>>(),
                    "emitted": idx.iter().map(|&i| emitted[i]).collect::<Vec<_>>(),
                    "fresh": idx.iter().map(|&i| fresh_all[written[i] - 1]).collect::<Vec<_>>()});
                let src = json!({"id": rec["id"], "cfg": cfg, "input": input, "cuts": cuts, "kind": kind});
                let key = format!("{}|{}|{}|{}|{}|{}", rec["kind"], rec["texth"], rec["input"], rec["cuts"], rec["emitted"], rec["fresh"]);
                sh.push(&rec, &src, Some(&key), true);
            }
        }
    }
    sh.finish(json!({"rule": "for every input (every fragment, ordered pairs over a seed-rotated pool, seeded documents / fragment sequences / random bytes) and handler kind (none, non-matching selectors, 4 observer sets): the byte-wise schedule samples pending(k) after EVERY prefix, plus random k-cut schedules; each sample is paired with a fresh rewriter given the same prefix in one write. Distinct = distinct (kind, input, schedule, samples)."}));
}

pub fn replay(_job: &str, src: &Value, out_dir: &str) {
    let input: Vec<u8> = src["input"].as_array().map(|a| a.iter().map(|x| x.as_u64().unwrap() as u8).collect()).unwrap_or_default();
    let cuts: Vec<usize> = src["cuts"].as_array().map(|a| a.iter().map(|x| x.as_u64().unwrap() as usize).collect()).unwrap_or_default();
    let cfg = &src["cfg"];
    let mut sh = Shards::new(out_dir, "c09", 50_000_000);
    let tl = driver::run(cfg, &input, &cuts, &RunOpts { no_end: true, ..RunOpts::default() });
    let emitted = emitted_after_writes(&tl);
    let mut written: Vec<usize> = cuts.iter().cloned().filter(|&c| c <= input.len()).collect();
    written.push(input.len());
    let idx: Vec<usize> = (0..written.len().min(emitted.len())).filter(|&i| written[i] >= 1).collect();
    let fresh: Vec<usize> = idx.iter().map(|&i| {
        let t = driver::run(cfg, &input[..written[i]], &[], &RunOpts { no_end: true, ..RunOpts::default() });
        *emitted_after_writes(&t).first().unwrap_or(&0)
    }).collect();
    let rec = json!({"id": "replay", "clauses": ["C09"], "kind": src["kind"], "texth": has_text_handler(cfg), "html": is_html_only(&input), "input": input,
        "cuts": idx.iter().map(|&i| written[i]).collect::<Vec<_>>(), "emitted": idx.iter().map(|&i| emitted[i]).collect::<Vec<_>>(), "fresh": fresh});
    sh.push(&rec, src, None, true);
    sh.finish(json!({}));
}
