//! Drives the real `lol_html` crate from a JSON run configuration and records everything that is
//! observable through the public API (plus the `_verif_hooks` memory accessor) into one ordered
//! timeline. No reference logic lives here: the timeline is judged by TLC.
use lol_html::errors::RewritingError;
use lol_html::html_content::{
    Comment, ContentType, Doctype, DocumentEnd, Element, EndTag, StreamingHandlerSink, TextChunk,
    TextType,
};
use lol_html::{
    AsciiCompatibleEncoding, DocumentContentHandlers, ElementContentHandlers, HandlerResult,
    HandlerTypes, HtmlRewriter, LocalHandlerTypes, MemorySettings, OutputSink, Selector, Settings,
};
use serde_json::{json, Value};
use std::borrow::Cow;
use std::panic::{catch_unwind, AssertUnwindSafe};
use std::sync::{Arc, Mutex};

pub struct Log {
    pub tl: Vec<Value>,
    pub sink_len: usize,
    pub inv: usize,
    pub fail_at: Option<usize>,
    pub full: bool,
    /// element events carry the attribute count only (pathological shapes: the cost measured is the library's)
    pub light: bool,
    /// measurement runs: nothing is recorded (no event, no byte copies); scripts are still applied
    pub bare: bool,
    /// bare runs: live heap right after the rewriter was built / after the last write returned (rewriter alive)
    pub heap0: isize,
    pub heap1: isize,
}
pub type SLog = Arc<Mutex<Log>>;

pub fn new_log(fail_at: Option<usize>, full: bool) -> SLog {
    Arc::new(Mutex::new(Log {
        tl: Vec::new(),
        sink_len: 0,
        inv: 0,
        fail_at,
        full,
        light: false,
        bare: false,
        heap0: 0,
        heap1: 0,
    }))
}

pub struct RecSink {
    pub log: SLog,
}
impl OutputSink for RecSink {
    fn handle_chunk(&mut self, chunk: &[u8]) {
        let mut l = self.log.lock().unwrap();
        l.sink_len += chunk.len();
        if l.bare { return; }
        l.tl.push(json!({"e":"chunk","b":chunk}));
    }
    fn set_encoding(&mut self, enc: AsciiCompatibleEncoding) {
        let e: &'static encoding_rs::Encoding = enc.into();
        self.log
            .lock()
            .unwrap()
            .tl
            .push(json!({"e":"enc","v":e.name()}));
    }
}

pub fn s2cp(s: &str) -> Vec<u32> {
    s.chars().map(|c| c as u32).collect()
}
fn jstr(v: &Value) -> String {
    // strings in scripts are given either as JSON strings or as arrays of code points
    match v {
        Value::String(s) => s.clone(),
        Value::Array(a) => a
            .iter()
            .map(|c| char::from_u32(c.as_u64().unwrap_or(0xFFFD) as u32).unwrap_or('\u{FFFD}'))
            .collect(),
        _ => String::new(),
    }
}
fn ct(v: Option<&Value>) -> ContentType {
    if v.and_then(|x| x.as_bool()).unwrap_or(true) {
        ContentType::Html
    } else {
        ContentType::Text
    }
}
fn tt_name(t: TextType) -> &'static str {
    match t {
        TextType::PlainText => "PlainText",
        TextType::RCData => "RCData",
        TextType::RawText => "RawText",
        TextType::ScriptData => "ScriptData",
        TextType::Data => "Data",
        TextType::CDataSection => "CDataSection",
    }
}
fn loc(l: lol_html::html_content::SourceLocation) -> Value {
    let r = l.bytes();
    json!([r.start, r.end])
}
fn oloc(l: Option<lol_html::html_content::SourceLocation>) -> Value {
    match l {
        Some(l) => loc(l),
        None => json!([]),
    }
}

type BoxErr = Box<dyn std::error::Error + Send + Sync + 'static>;
fn injected() -> BoxErr {
    "injected".into()
}

/// Returns (invocation index, must_fail)
fn begin_inv(log: &SLog) -> (usize, bool, usize) {
    let mut l = log.lock().unwrap();
    l.inv += 1;
    let i = l.inv;
    (i, l.fail_at == Some(i), l.sink_len)
}

fn streaming_handler(
    parts: Vec<Value>,
    html: ContentType,
) -> Box<dyn lol_html::html_content::StreamingHandler + Send + 'static> {
    // a part is a string / code-point array (write_str) or {"bytes":[..]} (write_utf8_chunk)
    let f = move |sink: &mut StreamingHandlerSink<'_>| -> HandlerResult {
        for p in &parts {
            if let Some(b) = p.get("bytes") {
                let bytes: Vec<u8> = b
                    .as_array()
                    .map(|a| a.iter().map(|x| x.as_u64().unwrap_or(0) as u8).collect())
                    .unwrap_or_default();
                sink.write_utf8_chunk(&bytes, html)?;
            } else {
                sink.write_str(&jstr(p), html);
            }
        }
        Ok(())
    };
    Box::from(f)
}

fn el_snapshot<H: HandlerTypes>(el: &Element<'_, '_, H>, full: bool) -> Value {
    let attrs: Vec<Value> = el
        .attributes()
        .iter()
        .map(|a| {
            if full {
                json!({"n": s2cp(&a.name()), "nr": s2cp(&a.name_preserve_case()), "v": s2cp(&a.value()),
                       "nl": oloc(a.name_source_location()), "vl": oloc(a.value_source_location())})
            } else {
                json!({"n": s2cp(&a.name()), "v": s2cp(&a.value())})
            }
        })
        .collect();
    let mut q: Vec<Value> = Vec::new();
    if full {
        // lookups: every attribute name as written, upper-cased, lower-cased, plus an absent name
        let mut names: Vec<String> = Vec::new();
        for a in el.attributes() {
            let n = a.name_preserve_case();
            names.push(n.to_ascii_uppercase());
            names.push(n.to_ascii_lowercase());
            names.push(n);
        }
        names.push("zz-absent".to_string());
        names.dedup();
        for n in names {
            let g = el.get_attribute(&n);
            q.push(json!({"op":"get_attr","arg":s2cp(&n),"has":g.is_some(),"v":s2cp(&g.unwrap_or_default())}));
            q.push(json!({"op":"has_attr","arg":s2cp(&n),"has":el.has_attribute(&n),"v":[]}));
        }
    }
    json!({
        "name": s2cp(&el.tag_name()),
        "nameraw": s2cp(&el.tag_name_preserve_case()),
        "q": q,
        "attrs": attrs,
        "ns": el.namespace_uri(),
        "sc": el.is_self_closing(),
        "chc": el.can_have_content(),
        "removed": el.removed(),
    })
}

fn apply_el_ops<H: HandlerTypes>(
    el: &mut Element<'_, '_, H>,
    script: &[Value],
    log: &SLog,
    hid: &str,
) -> (Vec<Value>, bool) {
    let mut res = Vec::new();
    let mut fail = false;
    for op in script {
        let name = op["op"].as_str().unwrap_or("");
        let a = op.get("a").and_then(|x| x.as_array()).cloned().unwrap_or_default();
        let s0 = a.first().map(jstr).unwrap_or_default();
        let r: Value = match name {
            "before" => {
                el.before(&s0, ct(a.get(1)));
                json!("ok")
            }
            "after" => {
                el.after(&s0, ct(a.get(1)));
                json!("ok")
            }
            "prepend" => {
                el.prepend(&s0, ct(a.get(1)));
                json!("ok")
            }
            "append" => {
                el.append(&s0, ct(a.get(1)));
                json!("ok")
            }
            "set_inner" => {
                el.set_inner_content(&s0, ct(a.get(1)));
                json!("ok")
            }
            "replace" => {
                el.replace(&s0, ct(a.get(1)));
                json!("ok")
            }
            "remove" => {
                el.remove();
                json!("ok")
            }
            "remove_keep" => {
                el.remove_and_keep_content();
                json!("ok")
            }
            "set_attr" => {
                let v = a.get(1).map(jstr).unwrap_or_default();
                match el.set_attribute(&s0, &v) {
                    Ok(()) => json!("ok"),
                    Err(e) => json!(format!("err:{e:?}")),
                }
            }
            "rm_attr" => {
                el.remove_attribute(&s0);
                json!("ok")
            }
            "set_name" => match el.set_tag_name(&s0) {
                Ok(()) => json!("ok"),
                Err(e) => json!(format!("err:{e:?}")),
            },
            "get_attr" => match el.get_attribute(&s0) {
                Some(v) => json!({"some": s2cp(&v)}),
                None => json!("none"),
            },
            "has_attr" => json!(el.has_attribute(&s0)),
            "st_before" => {
                el.start_tag().before(&s0, ct(a.get(1)));
                json!("ok")
            }
            "st_after" => {
                el.start_tag().after(&s0, ct(a.get(1)));
                json!("ok")
            }
            "st_replace" => {
                el.start_tag().replace(&s0, ct(a.get(1)));
                json!("ok")
            }
            "st_remove" => {
                el.start_tag().remove();
                json!("ok")
            }
            "s_before" | "s_after" | "s_prepend" | "s_append" | "s_set_inner" | "s_replace" => {
                let parts = a.first().and_then(|x| x.as_array()).cloned().unwrap_or_default();
                let h = streaming_handler(parts, ct(a.get(1)));
                match name {
                    "s_before" => el.streaming_before(h),
                    "s_after" => el.streaming_after(h),
                    "s_prepend" => el.streaming_prepend(h),
                    "s_append" => el.streaming_append(h),
                    "s_set_inner" => el.streaming_set_inner_content(h),
                    _ => el.streaming_replace(h),
                }
                json!("ok")
            }
            "on_end_tag" => {
                let sub: Vec<Value> = a.first().and_then(|x| x.as_array()).cloned().unwrap_or_default();
                let l2 = log.clone();
                let hid2 = format!("{hid}/et{}", res.len());
                let h = H::new_end_tag_handler(move |et: &mut EndTag<'_>| -> HandlerResult {
                    on_end_tag(et, &sub, &hid2, &l2)
                });
                match el.on_end_tag(h) {
                    Ok(()) => json!("ok"),
                    Err(_) => json!("err"),
                }
            }
            "fail" => {
                fail = true;
                json!("fail")
            }
            _ => json!("unknown-op"),
        };
        res.push(json!({"op": name, "a": a, "r": r}));
        if fail {
            break;
        }
    }
    (res, fail)
}

fn on_element<H: HandlerTypes>(
    el: &mut Element<'_, '_, H>,
    script: &[Value],
    hid: &str,
    log: &SLog,
) -> HandlerResult {
    if log.lock().unwrap().bare { let (_, fail) = apply_el_ops(el, script, log, hid); return if fail { Err(injected()) } else { Ok(()) }; }
    let (inv, must_fail, sink_len) = begin_inv(log);
    let (full, light) = { let l = log.lock().unwrap(); (l.full, l.light) };
    let mut ev = if light { json!({"nattrs": el.attributes().len()}) } else { el_snapshot(el, full) };
    ev["e"] = json!("ev");
    ev["k"] = json!("el");
    ev["h"] = json!(hid);
    ev["inv"] = json!(inv);
    ev["loc"] = loc(el.source_location());
    ev["sl"] = json!(sink_len);
    let (ops, fail) = apply_el_ops(el, script, log, hid);
    if !ops.is_empty() {
        ev["ops"] = json!(ops);
        if !light { ev["post"] = el_snapshot(el, false); }
        // the range is a property of the source, not of the edits
        ev["loc2"] = loc(el.source_location());
    }
    ev["fail"] = json!(must_fail || fail);
    log.lock().unwrap().tl.push(ev);
    if must_fail || fail {
        Err(injected())
    } else {
        Ok(())
    }
}

fn on_end_tag(et: &mut EndTag<'_>, script: &[Value], hid: &str, log: &SLog) -> HandlerResult {
    if script.is_empty() && log.lock().unwrap().bare { return Ok(()); }
    let (inv, must_fail, sink_len) = begin_inv(log);
    let mut fail = false;
    let mut ev = json!({"e":"ev","k":"et","h":hid,"inv":inv,"sl":sink_len,
        "name": s2cp(&et.name()), "nameraw": s2cp(&et.name_preserve_case()),
        "loc": loc(et.source_location()), "removed": et.removed()});
    let mut res = Vec::new();
    for op in script {
        let name = op["op"].as_str().unwrap_or("");
        let a = op.get("a").and_then(|x| x.as_array()).cloned().unwrap_or_default();
        let s0 = a.first().map(jstr).unwrap_or_default();
        let r = match name {
            "before" => {
                et.before(&s0, ct(a.get(1)));
                "ok"
            }
            "after" => {
                et.after(&s0, ct(a.get(1)));
                "ok"
            }
            "replace" => {
                et.replace(&s0, ct(a.get(1)));
                "ok"
            }
            "remove" => {
                et.remove();
                "ok"
            }
            "set_name" => {
                et.set_name_str(s0.clone());
                "ok"
            }
            "s_before" | "s_after" | "s_replace" => {
                let parts = a.first().and_then(|x| x.as_array()).cloned().unwrap_or_default();
                let h = streaming_handler(parts, ct(a.get(1)));
                match name {
                    "s_before" => et.streaming_before(h),
                    "s_after" => et.streaming_after(h),
                    _ => et.streaming_replace(h),
                }
                "ok"
            }
            "fail" => {
                fail = true;
                "fail"
            }
            _ => "unknown-op",
        };
        res.push(json!({"op": name, "a": a, "r": r}));
        if fail {
            break;
        }
    }
    if !res.is_empty() {
        ev["ops"] = json!(res);
        ev["loc2"] = loc(et.source_location());
    }
    ev["fail"] = json!(must_fail || fail);
    log.lock().unwrap().tl.push(ev);
    if must_fail || fail {
        Err(injected())
    } else {
        Ok(())
    }
}

fn on_comment(c: &mut Comment<'_>, script: &[Value], hid: &str, log: &SLog) -> HandlerResult {
    if script.is_empty() && log.lock().unwrap().bare { return Ok(()); }
    let (inv, must_fail, sink_len) = begin_inv(log);
    let mut fail = false;
    let mut ev = json!({"e":"ev","k":"cm","h":hid,"inv":inv,"sl":sink_len,
        "text": s2cp(&c.text()), "loc": loc(c.source_location()), "removed": c.removed()});
    let mut res = Vec::new();
    for op in script {
        let name = op["op"].as_str().unwrap_or("");
        let a = op.get("a").and_then(|x| x.as_array()).cloned().unwrap_or_default();
        let s0 = a.first().map(jstr).unwrap_or_default();
        let r: String = match name {
            "before" => {
                c.before(&s0, ct(a.get(1)));
                "ok".into()
            }
            "after" => {
                c.after(&s0, ct(a.get(1)));
                "ok".into()
            }
            "replace" => {
                c.replace(&s0, ct(a.get(1)));
                "ok".into()
            }
            "remove" => {
                c.remove();
                "ok".into()
            }
            "set_text" => match c.set_text(&s0) {
                Ok(()) => "ok".into(),
                Err(e) => format!("err:{e:?}"),
            },
            "s_before" | "s_after" | "s_replace" => {
                let parts = a.first().and_then(|x| x.as_array()).cloned().unwrap_or_default();
                let h = streaming_handler(parts, ct(a.get(1)));
                match name {
                    "s_before" => c.streaming_before(h),
                    "s_after" => c.streaming_after(h),
                    _ => c.streaming_replace(h),
                }
                "ok".into()
            }
            "fail" => {
                fail = true;
                "fail".into()
            }
            _ => "unknown-op".into(),
        };
        res.push(json!({"op": name, "a": a, "r": r}));
        if fail {
            break;
        }
    }
    if !res.is_empty() {
        ev["ops"] = json!(res);
        ev["post"] = json!({"text": s2cp(&c.text())});
        ev["loc2"] = loc(c.source_location());
    }
    ev["fail"] = json!(must_fail || fail);
    log.lock().unwrap().tl.push(ev);
    if must_fail || fail {
        Err(injected())
    } else {
        Ok(())
    }
}

fn on_text(t: &mut TextChunk<'_>, script: &[Value], hid: &str, log: &SLog) -> HandlerResult {
    if script.is_empty() && log.lock().unwrap().bare { return Ok(()); }
    let (inv, must_fail, sink_len) = begin_inv(log);
    let mut fail = false;
    let last = t.last_in_text_node();
    let mut ev = json!({"e":"ev","k":"tx","h":hid,"inv":inv,"sl":sink_len,
        "text": s2cp(t.as_str()), "tt": tt_name(t.text_type()), "last": last,
        "loc": loc(t.source_location()), "removed": t.removed()});
    let mut res = Vec::new();
    for op in script {
        let name = op["op"].as_str().unwrap_or("");
        // ops may be restricted to the last chunk of a node ("last":true) or to non-empty chunks
        if op.get("last").and_then(|x| x.as_bool()).unwrap_or(false) && !last {
            continue;
        }
        if op.get("nonempty").and_then(|x| x.as_bool()).unwrap_or(false) && t.as_str().is_empty() {
            continue;
        }
        let a = op.get("a").and_then(|x| x.as_array()).cloned().unwrap_or_default();
        let s0 = a.first().map(jstr).unwrap_or_default();
        let r = match name {
            "before" => {
                t.before(&s0, ct(a.get(1)));
                "ok"
            }
            "after" => {
                t.after(&s0, ct(a.get(1)));
                "ok"
            }
            "replace" => {
                t.replace(&s0, ct(a.get(1)));
                "ok"
            }
            "remove" => {
                t.remove();
                "ok"
            }
            "set_str" => {
                t.set_str(s0.clone());
                "ok"
            }
            "s_before" | "s_after" | "s_replace" => {
                let parts = a.first().and_then(|x| x.as_array()).cloned().unwrap_or_default();
                let h = streaming_handler(parts, ct(a.get(1)));
                match name {
                    "s_before" => t.streaming_before(h),
                    "s_after" => t.streaming_after(h),
                    _ => t.streaming_replace(h),
                }
                "ok"
            }
            "fail" => {
                fail = true;
                "fail"
            }
            _ => "unknown-op",
        };
        res.push(json!({"op": name, "a": a, "r": r}));
        if fail {
            break;
        }
    }
    if !res.is_empty() {
        ev["ops"] = json!(res);
        ev["loc2"] = loc(t.source_location());
    }
    ev["fail"] = json!(must_fail || fail);
    log.lock().unwrap().tl.push(ev);
    if must_fail || fail {
        Err(injected())
    } else {
        Ok(())
    }
}

fn on_doctype(d: &mut Doctype<'_>, script: &[Value], hid: &str, log: &SLog) -> HandlerResult {
    let (inv, must_fail, sink_len) = begin_inv(log);
    let mut fail = false;
    let o = |x: Option<String>| match x {
        Some(s) => json!({"some": s2cp(&s)}),
        None => json!("none"),
    };
    let mut ev = json!({"e":"ev","k":"dt","h":hid,"inv":inv,"sl":sink_len,
        "name": o(d.name()), "pub": o(d.public_id()), "sys": o(d.system_id()),
        "loc": loc(d.source_location()), "removed": d.removed()});
    let mut res = Vec::new();
    for op in script {
        let name = op["op"].as_str().unwrap_or("");
        let r = match name {
            "remove" => {
                d.remove();
                "ok"
            }
            "fail" => {
                fail = true;
                "fail"
            }
            _ => "unknown-op",
        };
        res.push(json!({"op": name, "a": [], "r": r}));
        if fail {
            break;
        }
    }
    if !res.is_empty() {
        ev["ops"] = json!(res);
        ev["loc2"] = loc(d.source_location());
    }
    ev["fail"] = json!(must_fail || fail);
    log.lock().unwrap().tl.push(ev);
    if must_fail || fail {
        Err(injected())
    } else {
        Ok(())
    }
}

fn on_doc_end(d: &mut DocumentEnd<'_>, script: &[Value], hid: &str, log: &SLog) -> HandlerResult {
    if script.is_empty() && log.lock().unwrap().bare { return Ok(()); }
    let (inv, must_fail, sink_len) = begin_inv(log);
    let mut fail = false;
    let mut ev = json!({"e":"ev","k":"de","h":hid,"inv":inv,"sl":sink_len});
    let mut res = Vec::new();
    for op in script {
        let name = op["op"].as_str().unwrap_or("");
        let a = op.get("a").and_then(|x| x.as_array()).cloned().unwrap_or_default();
        let s0 = a.first().map(jstr).unwrap_or_default();
        let r = match name {
            "append" => {
                d.append(&s0, ct(a.get(1)));
                "ok"
            }
            "fail" => {
                fail = true;
                "fail"
            }
            _ => "unknown-op",
        };
        res.push(json!({"op": name, "a": a, "r": r}));
        if fail {
            break;
        }
    }
    if !res.is_empty() {
        ev["ops"] = json!(res);

    }
    ev["fail"] = json!(must_fail || fail);
    log.lock().unwrap().tl.push(ev);
    if must_fail || fail {
        Err(injected())
    } else {
        Ok(())
    }
}

fn script_of(v: Option<&Value>) -> Option<Vec<Value>> {
    v.and_then(|x| x.as_array()).cloned()
}

pub fn encoding_of(cfg: &Value) -> Option<AsciiCompatibleEncoding> {
    let label = cfg.get("enc").and_then(|x| x.as_str()).unwrap_or("utf-8");
    let e = encoding_rs::Encoding::for_label_no_replacement(label.as_bytes())?;
    AsciiCompatibleEncoding::new(e)
}

macro_rules! mk_settings {
    ($fname:ident, $H:ty) => {
        pub fn $fname(cfg: &Value, log: &SLog) -> Result<Settings<'static, 'static, $H>, String> {
            let mut s: Settings<'static, 'static, $H> = Settings::new_for_handler_types();
            if let Some(elems) = cfg.get("elem").and_then(|x| x.as_array()) {
                for (i, eh) in elems.iter().enumerate() {
                    let sel_s = eh["sel"].as_str().unwrap_or("*");
                    let sel: Selector = sel_s.parse().map_err(|e| format!("selector:{e:?}"))?;
                    let mut h: ElementContentHandlers<'static, $H> = ElementContentHandlers::default();
                    if let Some(sc) = script_of(eh.get("element")) {
                        let l = log.clone();
                        let hid = format!("e{i}.el");
                        h = h.element(move |el: &mut Element<'_, '_, $H>| on_element::<$H>(el, &sc, &hid, &l));
                    }
                    if let Some(sc) = script_of(eh.get("text")) {
                        let l = log.clone();
                        let hid = format!("e{i}.tx");
                        h = h.text(move |t: &mut TextChunk<'_>| on_text(t, &sc, &hid, &l));
                    }
                    if let Some(sc) = script_of(eh.get("comments")) {
                        let l = log.clone();
                        let hid = format!("e{i}.cm");
                        h = h.comments(move |c: &mut Comment<'_>| on_comment(c, &sc, &hid, &l));
                    }
                    s = s.append_element_content_handler((Cow::Owned(sel), h));
                }
            }
            if let Some(docs) = cfg.get("doc").and_then(|x| x.as_array()) {
                for (j, dh) in docs.iter().enumerate() {
                    let mut h: DocumentContentHandlers<'static, $H> = DocumentContentHandlers::default();
                    if let Some(sc) = script_of(dh.get("doctype")) {
                        let l = log.clone();
                        let hid = format!("d{j}.dt");
                        h = h.doctype(move |d: &mut Doctype<'_>| on_doctype(d, &sc, &hid, &l));
                    }
                    if let Some(sc) = script_of(dh.get("comments")) {
                        let l = log.clone();
                        let hid = format!("d{j}.cm");
                        h = h.comments(move |c: &mut Comment<'_>| on_comment(c, &sc, &hid, &l));
                    }
                    if let Some(sc) = script_of(dh.get("text")) {
                        let l = log.clone();
                        let hid = format!("d{j}.tx");
                        h = h.text(move |t: &mut TextChunk<'_>| on_text(t, &sc, &hid, &l));
                    }
                    if let Some(sc) = script_of(dh.get("end")) {
                        let l = log.clone();
                        let hid = format!("d{j}.de");
                        h = h.end(move |d: &mut DocumentEnd<'_>| on_doc_end(d, &sc, &hid, &l));
                    }
                    s = s.append_document_content_handler(h);
                }
            }
            if let Some(bails) = cfg.get("bail").and_then(|x| x.as_array()) {
                for (j, b) in bails.iter().enumerate() {
                    let sc = b.as_array().cloned().unwrap_or_default();
                    let l = log.clone();
                    s = s.append_bail_out_handler(
                        move |err: &RewritingError, bo: &mut lol_html::html_content::BailOut<'_>| {
                            let kind = err_kind(err);
                            l.lock().unwrap().tl.push(json!({"e":"ev","k":"bo","h":format!("b{j}"),"err":kind}));
                            for op in &sc {
                                if op["op"].as_str() == Some("append") {
                                    let a = op.get("a").and_then(|x| x.as_array()).cloned().unwrap_or_default();
                                    bo.append(&a.first().map(jstr).unwrap_or_default(), ct(a.get(1)));
                                }
                            }
                        },
                    );
                }
            }
            let enc = encoding_of(cfg).ok_or_else(|| "encoding".to_string())?;
            let mut mem = MemorySettings::new();
            if let Some(m) = cfg.get("mem") {
                if let Some(x) = m.get("max").and_then(|x| x.as_u64()) {
                    mem = mem.with_max_allowed_memory_usage(x as usize);
                }
                if let Some(x) = m.get("prealloc").and_then(|x| x.as_u64()) {
                    mem = mem.with_preallocated_parsing_buffer_size(x as usize);
                }
                if let Some(x) = m.get("graceful").and_then(|x| x.as_bool()) {
                    mem = mem.with_graceful_bail_out_on_memory_limit_exceeded(x);
                }
            }
            s = s
                .with_encoding(enc)
                .with_memory_settings(mem)
                .with_strict(cfg.get("strict").and_then(|x| x.as_bool()).unwrap_or(true))
                .with_enable_esi_tags(cfg.get("esi").and_then(|x| x.as_bool()).unwrap_or(false))
                .with_adjust_charset_on_meta_tag(cfg.get("meta").and_then(|x| x.as_bool()).unwrap_or(false))
                .with_graceful_bail_out_on_content_handler_error(
                    cfg.get("gh").and_then(|x| x.as_bool()).unwrap_or(false),
                );
            Ok(s)
        }
    };
}
mk_settings!(settings_local, LocalHandlerTypes);
mk_settings!(settings_send, lol_html::send::SendHandlerTypes);

pub fn err_kind(e: &RewritingError) -> &'static str {
    match e {
        RewritingError::MemoryLimitExceeded(_) => "err:mem",
        RewritingError::ParsingAmbiguity(_) => "err:ambiguity",
        RewritingError::ContentHandlerError(_) => "err:handler",
        _ => "err:other",
    }
}

fn panic_msg(p: Box<dyn std::any::Any + Send>) -> String {
    if let Some(s) = p.downcast_ref::<&str>() {
        s.to_string()
    } else if let Some(s) = p.downcast_ref::<String>() {
        s.clone()
    } else {
        "?".to_string()
    }
}

pub fn chunks_of<'a>(input: &'a [u8], cuts: &[usize]) -> Vec<&'a [u8]> {
    let mut out = Vec::new();
    let mut prev = 0usize;
    for &c in cuts {
        let c = c.min(input.len()).max(prev);
        out.push(&input[prev..c]);
        prev = c;
    }
    out.push(&input[prev..]);
    out
}

pub struct RunOpts {
    /// after an error, call write again to observe the documented panic
    /// measurement run: see Log::bare
    pub bare: bool,
    pub poke_after_error: bool,
    /// use the Send handler types
    pub send: bool,
    /// stop after this many write calls without calling end (prefix runs)
    pub no_end: bool,
    /// yield to other threads between writes (and spin a little, seeded by the value)
    pub yields: u32,
}
impl Default for RunOpts {
    fn default() -> Self {
        RunOpts { bare: false, poke_after_error: false, send: false, no_end: false, yields: 0 }
    }
}

macro_rules! mk_run {
    ($fname:ident, $settings:ident, $H:ty) => {
        fn $fname(cfg: &Value, input: &[u8], cuts: &[usize], opts: &RunOpts, log: &SLog) {
            let push = |v: Value| log.lock().unwrap().tl.push(v);
            let settings = match catch_unwind(AssertUnwindSafe(|| $settings(cfg, log))) {
                Ok(Ok(s)) => s,
                Ok(Err(e)) => {
                    push(json!({"e":"new","res":format!("err:{e}")}));
                    return;
                }
                Err(p) => {
                    push(json!({"e":"new","res":format!("panic:{}", panic_msg(p))}));
                    return;
                }
            };
            let sink = RecSink { log: log.clone() };
            push(json!({"e":"call","op":"new"}));
            let mut rw: HtmlRewriter<'static, RecSink, $H> =
                match catch_unwind(AssertUnwindSafe(|| HtmlRewriter::new(settings, sink))) {
                    Ok(r) => r,
                    Err(p) => {
                        push(json!({"e":"ret","res":format!("panic:{}", panic_msg(p))}));
                        return;
                    }
                };
            let (u, m) = rw.verif_memory_usage();
            push(json!({"e":"ret","res":"ok","usage":u,"max": if m > (i32::MAX as usize) { -1i64 } else { m as i64 }}));
            if opts.bare { log.lock().unwrap().heap0 = crate::live_heap(); }
            let mut failed = false;
            let mut spin = opts.yields;
            for ch in chunks_of(input, cuts) {
                if opts.yields > 0 {
                    std::thread::yield_now();
                    spin = spin.wrapping_mul(1664525).wrapping_add(1013904223);
                    for _ in 0..(spin >> 24) { std::hint::spin_loop(); }
                }
                if !opts.bare { push(json!({"e":"call","op":"write","b":ch})); }
                let r = catch_unwind(AssertUnwindSafe(|| rw.write(ch)));
                let res = match &r {
                    Ok(Ok(())) => "ok".to_string(),
                    Ok(Err(e)) => err_kind(e).to_string(),
                    Err(_) => "panic".to_string(),
                };
                let (u, _) = rw.verif_memory_usage();
                let sl = log.lock().unwrap().sink_len;
                let mut v = json!({"e":"ret","res":res,"usage":u,"sl":sl});
                if let Ok(Err(e)) = &r { v["emsg"] = json!(e.to_string()); }
                if let Err(p) = r {
                    v["msg"] = json!(panic_msg(p));
                }
                // (bare runs keep their own heap quiet: successful writes leave no event)
                if !(opts.bare && res == "ok") { push(v); }
                if res != "ok" {
                    failed = true;
                    break;
                }
            }
            if opts.bare { log.lock().unwrap().heap1 = crate::live_heap(); }
            if failed {
                if opts.poke_after_error {
                    // any further use of a failed rewriter: an empty write, then a non-empty one
                    for poke in [&b""[..], &b"x"[..]] {
                        push(json!({"e":"call","op":"write","b":poke}));
                        let r = catch_unwind(AssertUnwindSafe(|| rw.write(poke)));
                        let res = match &r {
                            Ok(Ok(())) => "ok".to_string(),
                            Ok(Err(e)) => err_kind(e).to_string(),
                            Err(_) => "panic".to_string(),
                        };
                        let sl = log.lock().unwrap().sink_len;
                        push(json!({"e":"ret","res":res,"sl":sl,"poke":true}));
                    }
                }
                // dropping a poisoned rewriter must be silent
                let _ = catch_unwind(AssertUnwindSafe(move || drop(rw)));
                return;
            }
            if opts.no_end {
                let _ = catch_unwind(AssertUnwindSafe(move || drop(rw)));
                return;
            }
            push(json!({"e":"call","op":"end"}));
            let lim = rw.verif_memory_usage();
            let _ = lim;
            let r = catch_unwind(AssertUnwindSafe(move || rw.end()));
            let res = match &r {
                Ok(Ok(())) => "ok".to_string(),
                Ok(Err(e)) => err_kind(e).to_string(),
                Err(_) => "panic".to_string(),
            };
            let sl = log.lock().unwrap().sink_len;
            let mut v = json!({"e":"ret","res":res,"sl":sl});
            if let Ok(Err(e)) = &r { v["emsg"] = json!(e.to_string()); }
            if let Err(p) = r {
                v["msg"] = json!(panic_msg(p));
            }
            push(v);
        }
    };
}
mk_run!(run_local, settings_local, LocalHandlerTypes);
mk_run!(run_send, settings_send, lol_html::send::SendHandlerTypes);

/// A bare run (nothing recorded): (result of the last call, live-heap growth between "rewriter built" and "last write
/// returned", accounted usage at that point is not available here).
pub fn run_bare_heap(cfg: &Value, input: &[u8], cuts: &[usize]) -> (String, isize) {
    let fail_at = cfg.get("fail_at").and_then(|x| x.as_u64()).map(|x| x as usize);
    let log = new_log(fail_at, false);
    log.lock().unwrap().bare = true;
    let opts = RunOpts { bare: true, no_end: true, ..RunOpts::default() };
    run_local(cfg, input, cuts, &opts, &log);
    let l = log.lock().unwrap();
    let res = l.tl.iter().rev().find(|e| e["e"] == "ret" && e.get("sl").is_some()).map(|e| e["res"].as_str().unwrap_or("").to_string()).unwrap_or("ok".to_string());
    (res, l.heap1 - l.heap0)
}

/// Runs one (cfg, input, cuts) and returns the timeline.
pub fn run(cfg: &Value, input: &[u8], cuts: &[usize], opts: &RunOpts) -> Vec<Value> {
    let fail_at = cfg.get("fail_at").and_then(|x| x.as_u64()).map(|x| x as usize);
    let full = cfg.get("full").and_then(|x| x.as_bool()).unwrap_or(false);
    let log = new_log(fail_at, full);
    log.lock().unwrap().light = cfg.get("light").and_then(|x| x.as_bool()).unwrap_or(false);
    log.lock().unwrap().bare = opts.bare;
    if opts.send {
        run_send(cfg, input, cuts, opts, &log);
    } else {
        run_local(cfg, input, cuts, opts, &log);
    }
    let tl = std::mem::take(&mut log.lock().unwrap().tl);
    tl
}

/// A `Send` rewriter that is moved to a fresh thread for every write and for end().
pub fn run_migrating(cfg: &Value, input: &[u8], cuts: &[usize]) -> Vec<Value> {
    let fail_at = cfg.get("fail_at").and_then(|x| x.as_u64()).map(|x| x as usize);
    let log = new_log(fail_at, false);
    let push = |v: Value| log.lock().unwrap().tl.push(v);
    let settings = match settings_send(cfg, &log) { Ok(s) => s, Err(e) => { push(json!({"e":"new","res":format!("err:{e}")})); return std::mem::take(&mut log.lock().unwrap().tl); } };
    push(json!({"e":"call","op":"new"}));
    let mut rw: lol_html::send::HtmlRewriter<'static, RecSink> = HtmlRewriter::new(settings, RecSink { log: log.clone() });
    let (u, m) = rw.verif_memory_usage();
    push(json!({"e":"ret","res":"ok","usage":u,"max": if m > (i32::MAX as usize) { -1i64 } else { m as i64 }}));
    let mut failed = false;
    for ch in chunks_of(input, cuts) {
        push(json!({"e":"call","op":"write","b":ch}));
        let chunk = ch.to_vec();
        // the rewriter travels to another thread, is used there and travels back
        let (back, res) = std::thread::spawn(move || {
            let r = catch_unwind(AssertUnwindSafe(|| rw.write(&chunk)));
            let res = match &r { Ok(Ok(())) => "ok".to_string(), Ok(Err(e)) => err_kind(e).to_string(), Err(_) => "panic".to_string() };
            (rw, res)
        }).join().unwrap();
        rw = back;
        let (u, _) = rw.verif_memory_usage();
        let sl = log.lock().unwrap().sink_len;
        push(json!({"e":"ret","res":res,"usage":u,"sl":sl}));
        if res != "ok" { failed = true; break; }
    }
    if !failed {
        push(json!({"e":"call","op":"end"}));
        let res = std::thread::spawn(move || {
            let r = catch_unwind(AssertUnwindSafe(move || rw.end()));
            match &r { Ok(Ok(())) => "ok".to_string(), Ok(Err(e)) => err_kind(e).to_string(), Err(_) => "panic".to_string() }
        }).join().unwrap();
        let sl = log.lock().unwrap().sink_len;
        push(json!({"e":"ret","res":res,"sl":sl}));
    }
    let tl = std::mem::take(&mut log.lock().unwrap().tl);
    tl
}

/// `rewrite_str` variant (UTF-8 input only): returns (result, output) plus events.
pub fn run_rewrite_str(cfg: &Value, input: &str) -> (Vec<Value>, Result<String, String>) {
    let fail_at = cfg.get("fail_at").and_then(|x| x.as_u64()).map(|x| x as usize);
    let log = new_log(fail_at, false);
    let settings = match settings_local(cfg, &log) {
        Ok(s) => s,
        Err(e) => return (vec![], Err(format!("cfg:{e}"))),
    };
    let r = catch_unwind(AssertUnwindSafe(|| lol_html::rewrite_str(input, settings)));
    let res = match r {
        Ok(Ok(s)) => Ok(s),
        Ok(Err(e)) => Err(err_kind(&e).to_string()),
        Err(p) => Err(format!("panic:{}", panic_msg(p))),
    };
    let tl = std::mem::take(&mut log.lock().unwrap().tl);
    (tl, res)
}

pub fn silence_panics() {
    if std::env::var("VERIF_SHOW_PANICS").is_ok() { return; }
    std::panic::set_hook(Box::new(|_| {}));
}
