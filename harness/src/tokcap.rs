//! Full token capture through the crate's own `TransformController` interface (feature
//! `_integration_test`): every token of the lexer, including end tags no element handler can see.
use crate::driver::s2cp;
use lol_html::errors::RewritingError;
use lol_html::html_content::DocumentEnd;
use lol_html::{
    AsciiCompatibleEncoding, LocalName, Namespace, SharedMemoryLimiter, StartTagHandlingResult, Token,
    TokenCaptureFlags, TransformController, TransformStream, TransformStreamSettings,
};
use serde_json::{json, Value};
use std::cell::RefCell;
use std::panic::{catch_unwind, AssertUnwindSafe};
use std::rc::Rc;

struct Cap { flags: TokenCaptureFlags, log: Rc<RefCell<Vec<Value>>>, hints: Rc<RefCell<Vec<Value>>> }

/// name of a tag as announced to the controller: known for hashable names (Debug of the hash), empty otherwise
fn hint_name(n: &LocalName<'_>) -> Vec<u32> {
    let d = format!("{n:?}");
    // (the hash's Debug prints at most 12 characters; 13-character names can be hashable: treat 12 printed characters as unknown)
    match d.strip_prefix("Hash(\"").and_then(|r| r.strip_suffix("\")")) { Some(x) if x.len() < 12 => s2cp(x), _ => vec![] }
}

impl TransformController for Cap {
    fn initial_capture_flags(&self) -> TokenCaptureFlags { self.flags }
    // every tag is announced exactly once (as a hint from the tag scanner or when the lexer produces it): this is where
    // the real controller runs selector matching
    fn handle_start_tag(&mut self, n: LocalName<'_>, _: Namespace) -> StartTagHandlingResult<Self> { self.hints.borrow_mut().push(json!(["st", hint_name(&n)])); Ok(self.flags) }
    fn handle_end_tag(&mut self, n: LocalName<'_>) -> TokenCaptureFlags { self.hints.borrow_mut().push(json!(["et", hint_name(&n)])); self.flags }
    fn handle_token(&mut self, token: &mut Token<'_>) -> Result<(), RewritingError> {
        let o = |x: Option<String>| match x { Some(s) => json!({"has": true, "v": s2cp(&s)}), None => json!({"has": false, "v": []}) };
        let v = match token {
            Token::StartTag(t) => json!({"k":"st","name":s2cp(&t.name()),"attrs":t.attributes().iter().map(|a| json!([s2cp(&a.name()), s2cp(&a.value())])).collect::<Vec<_>>(),"sc":t.self_closing()}),
            Token::EndTag(t) => json!({"k":"et","name":s2cp(&t.name())}),
            Token::Comment(c) => json!({"k":"cm","text":s2cp(&c.text())}),
            Token::Doctype(d) => json!({"k":"dt","name":o(d.name()),"pub":o(d.public_id()),"sys":o(d.system_id())}),
            Token::TextChunk(t) => json!({"k":"tx","text":s2cp(t.as_str()),"last":t.last_in_text_node()}),
        };
        self.log.borrow_mut().push(v);
        Ok(())
    }
    fn handle_end(&mut self, _: &mut DocumentEnd<'_>) -> Result<(), RewritingError> { Ok(()) }
    fn should_emit_content(&self) -> bool { true }
}

/// flags: bit set as in TokenCaptureFlags (TEXT 1, COMMENTS 2, START 4, END 8, DOCTYPES 16)
pub fn capture(input: &[u8], cuts: &[usize], strict: bool, flags: u8) -> (Vec<Value>, String) {
    let (toks, _, res) = capture_with_hints(input, cuts, strict, flags);
    (toks, res)
}

pub fn capture_with_hints(input: &[u8], cuts: &[usize], strict: bool, flags: u8) -> (Vec<Value>, Vec<Value>, String) {
    let log = Rc::new(RefCell::new(Vec::new()));
    let hints = Rc::new(RefCell::new(Vec::new()));
    let cap = Cap { flags: TokenCaptureFlags::from_bits_truncate(flags), log: log.clone(), hints: hints.clone() };
    let res = catch_unwind(AssertUnwindSafe(|| {
        let mut ts = TransformStream::new(TransformStreamSettings {
            transform_controller: cap,
            output_sink: |_: &[u8]| {},
            preallocated_parsing_buffer_size: 0,
            memory_limiter: SharedMemoryLimiter::new(usize::MAX),
            encoding: AsciiCompatibleEncoding::utf_8(),
            next_encoding: Default::default(),
            strict,
            graceful_bail_out_on_memory_limit_exceeded: false,
            graceful_bail_out_on_content_handler_error: false,
        });
        for ch in crate::driver::chunks_of(input, cuts) {
            if let Err(e) = ts.write(ch) { return crate::driver::err_kind(&e).to_string(); }
        }
        match ts.end() { Ok(()) => "ok".to_string(), Err(e) => crate::driver::err_kind(&e).to_string() }
    }));
    let res = res.unwrap_or_else(|_| "panic".to_string());
    let toks = log.borrow().clone();
    let h = hints.borrow().clone();
    (toks, h, res)
}
