mod capi;
mod driver;
mod gen;
mod h5;
mod tokcap;
mod out;
mod props;
use serde_json::{json, Value};
use std::io::{BufRead, Write};

/// Counting allocator: live heap bytes of the process (used by the C10 job to see growth that the rewriter's
/// own accounting does not report).
pub struct Counting;
pub static LIVE_HEAP: std::sync::atomic::AtomicIsize = std::sync::atomic::AtomicIsize::new(0);
unsafe impl std::alloc::GlobalAlloc for Counting {
    unsafe fn alloc(&self, l: std::alloc::Layout) -> *mut u8 {
        LIVE_HEAP.fetch_add(l.size() as isize, std::sync::atomic::Ordering::Relaxed);
        unsafe { std::alloc::System.alloc(l) }
    }
    unsafe fn dealloc(&self, p: *mut u8, l: std::alloc::Layout) {
        LIVE_HEAP.fetch_sub(l.size() as isize, std::sync::atomic::Ordering::Relaxed);
        unsafe { std::alloc::System.dealloc(p, l) }
    }
    unsafe fn realloc(&self, p: *mut u8, l: std::alloc::Layout, n: usize) -> *mut u8 {
        LIVE_HEAP.fetch_add(n as isize - l.size() as isize, std::sync::atomic::Ordering::Relaxed);
        unsafe { std::alloc::System.realloc(p, l, n) }
    }
}
#[global_allocator]
static GLOBAL: Counting = Counting;
pub fn live_heap() -> isize { LIVE_HEAP.load(std::sync::atomic::Ordering::Relaxed) }

fn main() {
    let args: Vec<String> = std::env::args().collect();
    driver::silence_panics();
    match args.get(1).map(|s| s.as_str()) {
        Some("run") => {
            // stdin: one {"cfg":..,"input":[..]|"text":"..","cuts":[..]} per line; stdout: timelines
            let stdin = std::io::stdin();
            let out = std::io::stdout();
            let mut out = out.lock();
            for line in stdin.lock().lines() {
                let line = line.unwrap();
                if line.trim().is_empty() { continue; }
                let v: Value = serde_json::from_str(&line).expect("json");
                let input: Vec<u8> = match v.get("text") {
                    Some(t) => t.as_str().unwrap().as_bytes().to_vec(),
                    None => v["input"].as_array().unwrap().iter().map(|x| x.as_u64().unwrap() as u8).collect(),
                };
                let cuts: Vec<usize> = v.get("cuts").and_then(|c| c.as_array()).map(|a| a.iter().map(|x| x.as_u64().unwrap() as usize).collect()).unwrap_or_default();
                let tl = driver::run(&v["cfg"], &input, &cuts, &driver::RunOpts::default());
                writeln!(out, "{}", json!({"tl": tl})).unwrap();
            }
        }
        Some("capi-diff") | Some("capi-run") => {
            // stdin: {"cfg":..,"text"|"input":..,"cuts":[..],"opts":{<CapiOpts flags>}} per line.
            // capi-diff: SAME or the first differing (normalised) event pair; capi-run: C timeline.
            let show = args.get(1).map(|s| s == "capi-run").unwrap_or(false);
            let stdin = std::io::stdin();
            let mut bad = 0usize;
            for (ln, line) in stdin.lock().lines().enumerate() {
                let line = line.unwrap();
                if line.trim().is_empty() { continue; }
                let v: Value = serde_json::from_str(&line).expect("json");
                let input: Vec<u8> = match v.get("text") {
                    Some(t) => t.as_str().unwrap().as_bytes().to_vec(),
                    None => v["input"].as_array().unwrap().iter().map(|x| x.as_u64().unwrap() as u8).collect(),
                };
                let cuts: Vec<usize> = v.get("cuts").and_then(|c| c.as_array()).map(|a| a.iter().map(|x| x.as_u64().unwrap() as usize).collect()).unwrap_or_default();
                let opts = capi::CapiOpts::from_json(v.get("opts"));
                let ctl = capi::run_capi(&v["cfg"], &input, &cuts, &opts);
                if show {
                    println!("{}", json!({"tl": ctl}));
                    continue;
                }
                let rtl = driver::run(&v["cfg"], &input, &cuts, &driver::RunOpts::default());
                let live = ctl.iter().rev().find(|e| e["op"] == "leakcheck").map(|e| e["live"].clone()).unwrap_or(Value::Null);
                let strs = ctl.iter().rev().find(|e| e["op"] == "strcheck").cloned().unwrap_or(Value::Null);
                let unk = ctl.iter().filter(|e| e.to_string().contains("unknown-op")).count();
                let tail = format!("events={} live={} strs={}/{} unknown-op-events={}", ctl.len(), live, strs["freed"], strs["obtained"], unk);
                match capi::first_diff(&rtl, &ctl) {
                    None => println!("{} SAME {}", ln + 1, tail),
                    Some((i, r, c)) => {
                        bad += 1;
                        println!("{} DIFF at {} {}\n  rust: {}\n  capi: {}", ln + 1, i, tail, r, c);
                    }
                }
                if live != json!(0) || strs["freed"] != strs["obtained"] { bad += 1; println!("{} LEAK", ln + 1); }
            }
            if bad > 0 { std::process::exit(1); }
        }
        Some("capi-probe") => {
            for e in capi::capi_error_probe() { println!("{e}"); }
        }
        Some("replay") => {
            // lh replay <job> <outdir>   (stdin: the "src" object of a replay file)
            let job = args.get(2).expect("job");
            let outdir = args.get(3).map(|s| s.as_str()).unwrap_or("work");
            let mut s = String::new();
            std::io::Read::read_to_string(&mut std::io::stdin(), &mut s).unwrap();
            let src: Value = serde_json::from_str(&s).expect("json");
            match job.as_str() {
                "c01" | "c12" | "c15" => props::stream::replay(job, &src, outdir),
                "c14" | "c16" => props::tok::replay(job, &src, outdir),
                "c02" | "c06" => props::rel::replay(job, &src, outdir),
                "c09" => props::lat::replay(job, &src, outdir),
                "c04" => props::sel::replay(&src, outdir),
                _ => { eprintln!("unknown job {job}"); std::process::exit(2); }
            }
        }
        Some("tokcap") => {
            // debugging aid: lh tokcap <flags> <strict 0|1> '<html text>' [cut ...]
            let flags: u8 = args.get(2).and_then(|s| s.parse().ok()).unwrap_or(31);
            let strict = args.get(3).map(|s| s == "1").unwrap_or(false);
            let cuts: Vec<usize> = args.iter().skip(5).filter_map(|s| s.parse().ok()).collect();
            let (toks, res) = tokcap::capture(args.get(4).map(|s| s.as_bytes()).unwrap_or(b""), &cuts, strict, flags);
            for t in toks { println!("{t}"); }
            println!("res {res}");
        }
        Some("h5") => {
            // debugging aid: lh h5 '<html text>'
            let (toks, fb) = h5::run(args.get(2).map(|s| s.as_str()).unwrap_or(""));
            for t in toks { println!("{t}"); }
            println!("fb {}", Value::Array(fb));
            let (toks, res) = tokcap::capture(args.get(2).map(|s| s.as_bytes()).unwrap_or(b""), &[], true, 31);
            for t in toks { println!("lol {t}"); }
            println!("lol res {res}");
        }
        Some("gen-c15-shape") => {
            // lh gen-c15-shape <tier> <seed> <outdir> <shape index>   (child of job c15)
            let tier = args.get(2).map(|s| s.as_str()).unwrap_or("quick");
            let seed: u64 = args.get(3).and_then(|s| s.parse().ok()).unwrap_or(1);
            let outdir = args.get(4).map(|s| s.as_str()).unwrap_or("work");
            let si: usize = args.get(5).and_then(|s| s.parse().ok()).unwrap_or(0);
            let stack_only = args.get(6).map(|s| s == "stack").unwrap_or(false);
            props::stream::job_c15_shape_child(outdir, tier, seed, si, stack_only);
        }
        Some("gen") => {
            // lh gen <job> <tier> <seed> <outdir>
            let job = args.get(2).expect("job");
            let tier = args.get(3).map(|s| s.as_str()).unwrap_or("quick");
            let seed: u64 = args.get(4).and_then(|s| s.parse().ok()).unwrap_or(1);
            let outdir = args.get(5).map(|s| s.as_str()).unwrap_or("work");
            match job.as_str() {
                "c01" => props::stream::job_c01(outdir, tier, seed),
                "c12" => props::stream::job_c12(outdir, tier, seed),
                "c15" => props::stream::job_c15(outdir, tier, seed),
                "c12r" => props::stream::job_c12r(outdir, tier, seed),
                "c02" => props::rel::job_c02(outdir, tier, seed),
                "c06" => props::rel::job_c06(outdir, tier, seed),
                "c04" => props::sel::job_c04(outdir, tier, seed),
                "c05" => props::scope::job_c05(outdir, tier, seed),
                "c07" => props::edit::job_c07(outdir, tier, seed),
                "c08" => props::safe::job_c08(outdir, tier, seed),
                "c10" => props::mem::job_c10(outdir, tier, seed),
                "c11" => props::bail::job_c11(outdir, tier, seed),
                "c13" => props::enc::job_c13(outdir, tier, seed),
                "c03" => props::whatwg::job_c03(outdir, tier, seed),
                "c17" => props::capi_job::job_c17(outdir, tier, seed),
                "c18" => props::threads::job_c18(outdir, tier, seed),
                "c18s" => props::threads::job_c18_sched(outdir, tier, seed),
                "c09" => props::lat::job_c09(outdir, tier, seed),
                "c14" => props::tok::job_c14(outdir, tier, seed),
                "c16" => props::tok::job_c16(outdir, tier, seed),
                _ => { eprintln!("unknown job {job}"); std::process::exit(2); }
            }
        }
        _ => {
            eprintln!("usage: lh run");
            std::process::exit(2);
        }
    }
}
