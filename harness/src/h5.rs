//! html5ever 0.39 (tokenizer driven by its real tree builder): the token stream and, as a WITNESS for the
//! specification, the tree builder's feedback after every tag token (tokenizer switch, CDATA allowed).
use html5ever::tendril::StrTendril;
use html5ever::tokenizer::states::RawKind;
use html5ever::tokenizer::{BufferQueue, TagKind, Token, TokenSink, TokenSinkResult, Tokenizer, TokenizerOpts};
use html5ever::tree_builder::{TreeBuilder, TreeBuilderOpts};
use html5ever::TokenizerResult;
use markup5ever_rcdom::RcDom;
use serde_json::{json, Value};
use std::cell::RefCell;

struct Proxy<S> { inner: S, toks: RefCell<Vec<Value>>, fb: RefCell<Vec<Value>> }

fn cps(s: &str) -> Vec<u32> { s.chars().map(|c| c as u32).collect() }

impl<S: TokenSink> TokenSink for Proxy<S> {
    type Handle = S::Handle;
    fn process_token(&self, token: Token, line: u64) -> TokenSinkResult<Self::Handle> {
        let mut is_tag = false;
        match &token {
            Token::DoctypeToken(d) => {
                let o = |x: &Option<StrTendril>| match x { Some(s) => json!({"has": true, "v": cps(s)}), None => json!({"has": false, "v": []}) };
                self.toks.borrow_mut().push(json!({"k":"dt","name":o(&d.name),"pub":o(&d.public_id),"sys":o(&d.system_id)}));
            }
            Token::TagToken(t) => {
                is_tag = true;
                let name = cps(&t.name);
                self.toks.borrow_mut().push(match t.kind {
                    TagKind::StartTag => json!({"k":"st","name":name,"attrs":t.attrs.iter().map(|a| json!([cps(&a.name.local), cps(&a.value)])).collect::<Vec<_>>(),"sc":t.self_closing}),
                    TagKind::EndTag => json!({"k":"et","name":name}),
                });
            }
            Token::CommentToken(s) => self.toks.borrow_mut().push(json!({"k":"cm","text":cps(s)})),
            Token::CharacterTokens(s) if !s.is_empty() => self.toks.borrow_mut().push(json!({"k":"tx","text":cps(s),"last":true})),
            Token::NullCharacterToken => self.toks.borrow_mut().push(json!({"k":"tx","text":[0],"last":true})),
            _ => {}
        }
        let r = self.inner.process_token(token, line);
        if is_tag {
            let tt = match &r {
                TokenSinkResult::Plaintext => "PlainText",
                TokenSinkResult::RawData(RawKind::Rcdata) => "RCData",
                TokenSinkResult::RawData(RawKind::Rawtext) => "RawText",
                TokenSinkResult::RawData(RawKind::ScriptData) | TokenSinkResult::RawData(RawKind::ScriptDataEscaped(_)) => "ScriptData",
                _ => "",
            };
            self.fb.borrow_mut().push(json!({"tt": tt, "cdata": self.inner.adjusted_current_node_present_but_not_in_html_namespace()}));
        }
        r
    }
    fn end(&self) { self.inner.end(); }
    fn adjusted_current_node_present_but_not_in_html_namespace(&self) -> bool {
        self.inner.adjusted_current_node_present_but_not_in_html_namespace()
    }
}

/// (tokens, feedback witness per tag token)
pub fn run(input: &str) -> (Vec<Value>, Vec<Value>) {
    let b = BufferQueue::default();
    b.push_back(StrTendril::from(input));
    let t = Tokenizer::new(
        Proxy { inner: TreeBuilder::new(RcDom::default(), TreeBuilderOpts::default()), toks: RefCell::new(vec![]), fb: RefCell::new(vec![]) },
        TokenizerOpts::default(),
    );
    while let TokenizerResult::Script(_) = t.feed(&b) {}
    t.end();
    let toks = t.sink.toks.borrow().clone();
    let fb = t.sink.fb.borrow().clone();
    (toks, fb)
}
