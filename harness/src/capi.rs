//! Drives `lol_html` exclusively through the exported C functions of the `lolhtml` crate
//! (`/repo/c-api`, header `/repo/c-api/include/lol_html.h`) and records the same timeline format as
//! `driver.rs`. Only functions that are declared in the header are used; anything the header does
//! not offer is reported as `"unknown-op"`.
//!
//! Ownership rules followed here (see the header comments quoted in the report):
//!  * every `lol_html_str_t` is freed exactly once with `lol_html_str_free` (immediately, or after
//!    `lol_html_rewriter_free` when `late_str_free` is set: the header puts no lifetime bound on
//!    library-allocated strings, they are independent heap copies);
//!  * `lol_html_text_chunk_content_t` is never freed and copied inside the handler;
//!  * handler user data registered on the builder or through `add_end_tag_handler` has no drop
//!    callback in C, so it is kept alive until the rewriter, the builder and the selectors are gone;
//!  * streaming handler user data is released by the `drop_callback`;
//!  * selectors are freed only after the builder (header WARNING on `lol_html_selector_parse`).
use crate::driver::{chunks_of, s2cp};
use libc::{c_char, c_int, c_void};
use lol_html::html_content::{Comment, Doctype, DocumentEnd, Element, EndTag, TextChunk};
use lol_html::Selector;
use lolhtml::comment::*;
use lolhtml::doctype::*;
use lolhtml::document_end::*;
use lolhtml::element::*;
use lolhtml::errors::lol_html_take_last_error;
use lolhtml::rewriter::*;
use lolhtml::rewriter_builder::*;
use lolhtml::selector::*;
use lolhtml::streaming::*;
use lolhtml::string::lol_html_str_free;
use lolhtml::text_chunk::*;
use lolhtml::{SourceLocationBytes, Str};
use serde_json::{json, Value};
use std::cell::RefCell;
use std::mem::ManuallyDrop;
use std::ptr;
use std::rc::Rc;

#[derive(Default, Clone, Debug)]
pub struct CapiOpts {
    /// `lol_html_rewriter_builder_free` right after build, before any write
    pub free_builder_early: bool,
    /// `lol_html_selector_free` right after the rewriter is built. The header only permits this
    /// once every dependant builder is gone, so this implies freeing the builder first.
    pub free_selectors_early: bool,
    /// keep every `lol_html_str_t` obtained in handlers and free it after `lol_html_rewriter_free`
    pub late_str_free: bool,
    /// free the rewriter without calling end
    pub skip_end: bool,
    /// call `lol_html_take_last_error` twice after a failure
    pub double_take_error: bool,
    /// before anything else a selector parse fails and its error is NOT taken (the message of a later
    /// failure must be that failure's own)
    pub untaken_selector_error: bool,
}

impl CapiOpts {
    pub fn from_json(v: Option<&Value>) -> Self {
        let b = |k: &str| v.and_then(|o| o.get(k)).and_then(|x| x.as_bool()).unwrap_or(false);
        CapiOpts {
            free_builder_early: b("free_builder_early"),
            free_selectors_early: b("free_selectors_early"),
            late_str_free: b("late_str_free"),
            skip_end: b("skip_end"),
            double_take_error: b("double_take_error"),
            untaken_selector_error: b("untaken_selector_error"),
        }
    }
}

/// `lol_html_str_t` / `lol_html_text_chunk_content_t` as a C client sees them (the Rust structs
/// have private fields).
#[repr(C)]
struct RawStr {
    data: *const c_char,
    len: usize,
}
/// `lol_html_memory_settings_t` as declared in the header.
#[repr(C)]
struct RawMem {
    preallocated_parsing_buffer_size: usize,
    max_allowed_memory_usage: usize,
    graceful_bail_out_on_memory_limit_exceeded: bool,
}

struct Ctx {
    tl: Vec<Value>,
    sink_len: usize,
    inv: usize,
    fail_at: Option<usize>,
    full: bool,
    /// some handler returned LOL_HTML_STOP / some streaming handler returned non-zero
    stopped: bool,
    late: bool,
    late_strs: Vec<(RawStr, Vec<u8>)>,
    /// user data of end tag handlers: C offers no drop notification for them
    et_uds: Vec<*mut HandlerUd>,
    /// user data allocations that are still alive
    live: isize,
    strs_obtained: usize,
    strs_freed: usize,
}
type SCtx = Rc<RefCell<Ctx>>;

struct HandlerUd {
    ctx: SCtx,
    script: Vec<Value>,
    hid: String,
}
struct StreamUd {
    ctx: SCtx,
    parts: Vec<Value>,
    html: bool,
}
struct SinkUd {
    ctx: SCtx,
}

fn new_ctx(fail_at: Option<usize>, full: bool, late: bool) -> SCtx {
    Rc::new(RefCell::new(Ctx {
        tl: Vec::new(),
        sink_len: 0,
        inv: 0,
        fail_at,
        full,
        stopped: false,
        late,
        late_strs: Vec::new(),
        et_uds: Vec::new(),
        live: 0,
        strs_obtained: 0,
        strs_freed: 0,
    }))
}

fn push(ctx: &SCtx, v: Value) {
    ctx.borrow_mut().tl.push(v);
}
fn api(ctx: &SCtx, op: &str, r: Value) {
    push(ctx, json!({"e":"api","op":op,"r":r}));
}

fn alloc_ud<T>(ctx: &SCtx, v: T) -> *mut T {
    ctx.borrow_mut().live += 1;
    Box::into_raw(Box::new(v))
}
/// Safety: `p` comes from `alloc_ud` and has not been freed.
unsafe fn free_ud<T>(ctx: &SCtx, p: *mut T) {
    drop(unsafe { Box::from_raw(p) });
    ctx.borrow_mut().live -= 1;
}

// ---------------------------------------------------------------------------------------------
// strings

fn raw_of(s: Str) -> RawStr {
    // SAFETY: both are `repr(C)` {const char*, size_t}; `Str` is not dropped by the transmute
    unsafe { std::mem::transmute::<Str, RawStr>(s) }
}
fn free_raw(r: RawStr) {
    // SAFETY: `r` was produced by the library and is handed back exactly once
    unsafe { lol_html_str_free(std::mem::transmute::<RawStr, Str>(r)) }
}

/// Copies the content of a library string and releases it (now, or after the rewriter is freed).
/// `None` stands for `data == NULL`.
fn take_str(ctx: &SCtx, s: Str) -> Option<String> {
    let r = raw_of(s);
    if r.data.is_null() {
        // "This is valid to call even if `str.data == NULL`"
        free_raw(r);
        return None;
    }
    let bytes = unsafe { std::slice::from_raw_parts(r.data as *const u8, r.len) }.to_vec();
    let text = String::from_utf8_lossy(&bytes).into_owned();
    let late = {
        let mut c = ctx.borrow_mut();
        c.strs_obtained += 1;
        c.late
    };
    if late {
        ctx.borrow_mut().late_strs.push((r, bytes));
    } else {
        free_raw(r);
        ctx.borrow_mut().strs_freed += 1;
    }
    Some(text)
}
fn cps(ctx: &SCtx, s: Str) -> Value {
    json!(s2cp(&take_str(ctx, s).unwrap_or_default()))
}
fn opt_cps(ctx: &SCtx, s: Str) -> Value {
    match take_str(ctx, s) {
        Some(t) => json!({"some": s2cp(&t)}),
        None => json!("none"),
    }
}
/// Takes the pending error message (if any), records it, frees it.
fn take_error(ctx: &SCtx, whr: &str) -> Option<String> {
    let m = take_str(ctx, lol_html_take_last_error());
    push(ctx, json!({"e":"api","op":"take_last_error","r":m,"at":whr}));
    m
}

fn jstr(v: &Value) -> String {
    match v {
        Value::String(s) => s.clone(),
        Value::Array(a) => a
            .iter()
            .map(|c| char::from_u32(c.as_u64().unwrap_or(0xFFFD) as u32).unwrap_or('\u{FFFD}'))
            .collect(),
        _ => String::new(),
    }
}
fn is_html(v: Option<&Value>) -> bool {
    v.and_then(|x| x.as_bool()).unwrap_or(true)
}
fn cp(s: &str) -> *const c_char {
    s.as_ptr() as *const c_char
}
fn loc(l: SourceLocationBytes) -> Value {
    json!([l.start, l.end])
}
fn rc(r: c_int) -> &'static str {
    if r == 0 {
        "ok"
    } else {
        "err"
    }
}

/// Returns (invocation index, must_fail, sink length, full)
fn begin_inv(ctx: &SCtx) -> (usize, bool, usize, bool) {
    let mut c = ctx.borrow_mut();
    c.inv += 1;
    let i = c.inv;
    (i, c.fail_at == Some(i), c.sink_len, c.full)
}
fn directive(ctx: &SCtx, stop: bool) -> RewriterDirective {
    if stop {
        ctx.borrow_mut().stopped = true;
        RewriterDirective::Stop
    } else {
        RewriterDirective::Continue
    }
}
fn op_parts(op: &Value) -> (&str, Vec<Value>, String) {
    let name = op["op"].as_str().unwrap_or("");
    let a = op.get("a").and_then(|x| x.as_array()).cloned().unwrap_or_default();
    let s0 = a.first().map(jstr).unwrap_or_default();
    (name, a, s0)
}

// ---------------------------------------------------------------------------------------------
// streaming handlers

unsafe extern "C" fn stream_write(sink: &mut CStreamingHandlerSink<'_>, ud: *mut c_void) -> c_int {
    let u = unsafe { &*(ud as *const StreamUd) };
    let sink: *mut CStreamingHandlerSink<'_> = sink;
    for p in &u.parts {
        let r = if let Some(b) = p.get("bytes") {
            let bytes: Vec<u8> = b
                .as_array()
                .map(|a| a.iter().map(|x| x.as_u64().unwrap_or(0) as u8).collect())
                .unwrap_or_default();
            unsafe {
                lol_html_streaming_sink_write_utf8_chunk(
                    sink,
                    bytes.as_ptr() as *const c_char,
                    bytes.len(),
                    u.html,
                )
            }
        } else {
            let s = jstr(p);
            unsafe { lol_html_streaming_sink_write_str(sink, cp(&s), s.len(), u.html) }
        };
        if r != 0 {
            u.ctx.borrow_mut().stopped = true;
            return 1;
        }
    }
    0
}
unsafe extern "C" fn stream_drop(ud: *mut c_void) {
    let p = ud as *mut StreamUd;
    let ctx = unsafe { (*p).ctx.clone() };
    unsafe { free_ud(&ctx, p) };
    push(&ctx, json!({"e":"api","op":"stream_drop"}));
}
/// Registers a streaming handler through `f`. The struct is "created on the stack" and copied by
/// the library; the Rust-side `Drop` of the local copy must not run (a C struct has none).
unsafe fn reg_stream<T>(
    ctx: &SCtx,
    target: *mut T,
    a: &[Value],
    f: unsafe extern "C" fn(*mut T, *mut CStreamingHandler) -> c_int,
) -> &'static str {
    let parts = a.first().and_then(|x| x.as_array()).cloned().unwrap_or_default();
    let ud = alloc_ud(ctx, StreamUd { ctx: ctx.clone(), parts, html: is_html(a.get(1)) });
    let mut h = ManuallyDrop::new(CStreamingHandler {
        user_data: ud as *mut c_void,
        write_all_callback: Some(stream_write),
        drop_callback: Some(stream_drop),
        reserved: ptr::null_mut(),
    });
    let r = unsafe { f(target, &mut *h as *mut CStreamingHandler) };
    // A non-zero result is impossible here (non-NULL target, callback set, reserved NULL); in that
    // case the library does not say whether the drop callback ran, so nothing more is done.
    rc(r)
}

// ---------------------------------------------------------------------------------------------
// element

unsafe fn el_snapshot(ctx: &SCtx, el: *mut Element<'_, '_>, full: bool) -> Value {
    unsafe {
        let mut attrs: Vec<Value> = Vec::new();
        let mut raw_names: Vec<String> = Vec::new();
        let it = lol_html_attributes_iterator_get(el);
        loop {
            let a = lol_html_attributes_iterator_next(it);
            if a.is_null() {
                break;
            }
            let n = take_str(ctx, lol_html_attribute_name_get(a)).unwrap_or_default();
            let v = take_str(ctx, lol_html_attribute_value_get(a)).unwrap_or_default();
            if full {
                let nr = take_str(ctx, lol_html_attribute_name_get_preserve_case(a)).unwrap_or_default();
                // attribute source locations are not exposed by the C API
                attrs.push(json!({"n": s2cp(&n), "nr": s2cp(&nr), "v": s2cp(&v), "nl": [], "vl": []}));
                raw_names.push(nr);
            } else {
                attrs.push(json!({"n": s2cp(&n), "v": s2cp(&v)}));
            }
        }
        lol_html_attributes_iterator_free(it);
        let mut q: Vec<Value> = Vec::new();
        if full {
            let mut names: Vec<String> = Vec::new();
            for n in raw_names {
                names.push(n.to_ascii_uppercase());
                names.push(n.to_ascii_lowercase());
                names.push(n);
            }
            names.push("zz-absent".to_string());
            names.dedup();
            for n in names {
                let g = take_str(ctx, lol_html_element_get_attribute(el, cp(&n), n.len()));
                q.push(json!({"op":"get_attr","arg":s2cp(&n),"has":g.is_some(),"v":s2cp(&g.unwrap_or_default())}));
                let h = lol_html_element_has_attribute(el, cp(&n), n.len());
                q.push(json!({"op":"has_attr","arg":s2cp(&n),"has":h == 1,"v":[]}));
            }
        }
        let ns = std::ffi::CStr::from_ptr(lol_html_element_namespace_uri_get(el))
            .to_string_lossy()
            .into_owned();
        json!({
            "name": cps(ctx, lol_html_element_tag_name_get(el)),
            "nameraw": cps(ctx, lol_html_element_tag_name_get_preserve_case(el)),
            "q": q,
            "attrs": attrs,
            "ns": ns,
            "sc": lol_html_element_is_self_closing(el),
            "chc": lol_html_element_can_have_content(el),
            "removed": lol_html_element_is_removed(el),
        })
    }
}

type ElContentFn = unsafe extern "C" fn(*mut Element<'_, '_>, *const c_char, usize, bool) -> c_int;
type ElStreamFn = unsafe extern "C" fn(*mut Element<'_, '_>, *mut CStreamingHandler) -> c_int;

unsafe fn apply_el_ops(h: &HandlerUd, el: *mut Element<'_, '_>) -> (Vec<Value>, bool) {
    let ctx = &h.ctx;
    let mut res: Vec<Value> = Vec::new();
    let mut fail = false;
    for op in &h.script {
        let (name, a, s0) = op_parts(op);
        let content: Option<ElContentFn> = match name {
            "before" => Some(lol_html_element_before),
            "after" => Some(lol_html_element_after),
            "prepend" => Some(lol_html_element_prepend),
            "append" => Some(lol_html_element_append),
            "set_inner" => Some(lol_html_element_set_inner_content),
            "replace" => Some(lol_html_element_replace),
            _ => None,
        };
        let stream: Option<ElStreamFn> = match name {
            "s_before" => Some(lol_html_element_streaming_before),
            "s_after" => Some(lol_html_element_streaming_after),
            "s_prepend" => Some(lol_html_element_streaming_prepend),
            "s_append" => Some(lol_html_element_streaming_append),
            "s_set_inner" => Some(lol_html_element_streaming_set_inner_content),
            "s_replace" => Some(lol_html_element_streaming_replace),
            _ => None,
        };
        let r: Value = unsafe {
            if let Some(f) = content {
                json!(rc(f(el, cp(&s0), s0.len(), is_html(a.get(1)))))
            } else if let Some(f) = stream {
                json!(reg_stream(ctx, el, &a, f))
            } else {
                match name {
                    "remove" => {
                        lol_html_element_remove(el);
                        json!("ok")
                    }
                    "remove_keep" => {
                        lol_html_element_remove_and_keep_content(el);
                        json!("ok")
                    }
                    "set_attr" => {
                        let v = a.get(1).map(jstr).unwrap_or_default();
                        json!(rc(lol_html_element_set_attribute(el, cp(&s0), s0.len(), cp(&v), v.len())))
                    }
                    "rm_attr" => json!(rc(lol_html_element_remove_attribute(el, cp(&s0), s0.len()))),
                    "set_name" => json!(rc(lol_html_element_tag_name_set(el, cp(&s0), s0.len()))),
                    "get_attr" => opt_cps(ctx, lol_html_element_get_attribute(el, cp(&s0), s0.len())),
                    "has_attr" => match lol_html_element_has_attribute(el, cp(&s0), s0.len()) {
                        1 => json!(true),
                        0 => json!(false),
                        _ => json!("err"),
                    },
                    "on_end_tag" => {
                        let sub: Vec<Value> =
                            a.first().and_then(|x| x.as_array()).cloned().unwrap_or_default();
                        let hid2 = format!("{}/et{}", h.hid, res.len());
                        let ud = alloc_ud(ctx, HandlerUd { ctx: ctx.clone(), script: sub, hid: hid2 });
                        // no drop notification exists for end tag handlers: released after the
                        // rewriter is freed, whether or not the registration succeeded
                        ctx.borrow_mut().et_uds.push(ud);
                        json!(rc(lol_html_element_add_end_tag_handler(el, cb_end_tag, ud as *mut c_void)))
                    }
                    "fail" => {
                        fail = true;
                        json!("fail")
                    }
                    // start tag mutations (st_before, st_after, st_replace, st_remove) and anything
                    // else have no counterpart in lol_html.h
                    _ => json!("unknown-op"),
                }
            }
        };
        if r == json!("err") {
            take_error(ctx, &h.hid);
        }
        res.push(json!({"op": name, "a": a, "r": r}));
        if fail {
            break;
        }
    }
    (res, fail)
}

unsafe extern "C" fn cb_element(el: *mut Element<'_, '_>, ud: *mut c_void) -> RewriterDirective {
    let h = unsafe { &*(ud as *const HandlerUd) };
    let ctx = &h.ctx;
    let (inv, must_fail, sink_len, full) = begin_inv(ctx);
    let mut ev = unsafe { el_snapshot(ctx, el, full) };
    ev["e"] = json!("ev");
    ev["k"] = json!("el");
    ev["h"] = json!(h.hid);
    ev["inv"] = json!(inv);
    ev["loc"] = loc(unsafe { lol_html_element_source_location_bytes(el) });
    ev["sl"] = json!(sink_len);
    let (ops, fail) = unsafe { apply_el_ops(h, el) };
    if !ops.is_empty() {
        ev["ops"] = json!(ops);
        ev["post"] = unsafe { el_snapshot(ctx, el, false) };
    }
    ev["fail"] = json!(must_fail || fail);
    push(ctx, ev);
    directive(ctx, must_fail || fail)
}

unsafe extern "C" fn cb_end_tag(et: *mut EndTag<'_>, ud: *mut c_void) -> RewriterDirective {
    let h = unsafe { &*(ud as *const HandlerUd) };
    let ctx = &h.ctx;
    let (inv, must_fail, sink_len, _) = begin_inv(ctx);
    let mut fail = false;
    // NOTE: lol_html.h has no `lol_html_end_tag_is_removed`: the `removed` key cannot be produced
    let mut ev = unsafe {
        json!({"e":"ev","k":"et","h":h.hid,"inv":inv,"sl":sink_len,
            "name": cps(ctx, lol_html_end_tag_name_get(et)),
            "nameraw": cps(ctx, lol_html_end_tag_name_get_preserve_case(et)),
            "loc": loc(lol_html_end_tag_source_location_bytes(et))})
    };
    let mut res = Vec::new();
    for op in &h.script {
        let (name, a, s0) = op_parts(op);
        let r = unsafe {
            match name {
                "before" => rc(lol_html_end_tag_before(et, cp(&s0), s0.len(), is_html(a.get(1)))),
                "after" => rc(lol_html_end_tag_after(et, cp(&s0), s0.len(), is_html(a.get(1)))),
                "remove" => {
                    lol_html_end_tag_remove(et);
                    "ok"
                }
                "set_name" => rc(lol_html_end_tag_name_set(et, cp(&s0), s0.len())),
                "s_before" => reg_stream(ctx, et, &a, lol_html_end_tag_streaming_before),
                "s_after" => reg_stream(ctx, et, &a, lol_html_end_tag_streaming_after),
                "s_replace" => reg_stream(ctx, et, &a, lol_html_end_tag_streaming_replace),
                "fail" => {
                    fail = true;
                    "fail"
                }
                // `replace`: exported by the library but not declared in lol_html.h
                _ => "unknown-op",
            }
        };
        if r == "err" {
            take_error(ctx, &h.hid);
        }
        res.push(json!({"op": name, "a": a, "r": r}));
        if fail {
            break;
        }
    }
    if !res.is_empty() {
        ev["ops"] = json!(res);
    }
    ev["fail"] = json!(must_fail || fail);
    push(ctx, ev);
    directive(ctx, must_fail || fail)
}

unsafe extern "C" fn cb_comment(c: *mut Comment<'_>, ud: *mut c_void) -> RewriterDirective {
    let h = unsafe { &*(ud as *const HandlerUd) };
    let ctx = &h.ctx;
    let (inv, must_fail, sink_len, _) = begin_inv(ctx);
    let mut fail = false;
    let mut ev = unsafe {
        json!({"e":"ev","k":"cm","h":h.hid,"inv":inv,"sl":sink_len,
            "text": cps(ctx, lol_html_comment_text_get(c)),
            "loc": loc(lol_html_comment_source_location_bytes(c)),
            "removed": lol_html_comment_is_removed(c)})
    };
    let mut res = Vec::new();
    for op in &h.script {
        let (name, a, s0) = op_parts(op);
        let r = unsafe {
            match name {
                "before" => rc(lol_html_comment_before(c, cp(&s0), s0.len(), is_html(a.get(1)))),
                "after" => rc(lol_html_comment_after(c, cp(&s0), s0.len(), is_html(a.get(1)))),
                "replace" => rc(lol_html_comment_replace(c, cp(&s0), s0.len(), is_html(a.get(1)))),
                "remove" => {
                    lol_html_comment_remove(c);
                    "ok"
                }
                "set_text" => rc(lol_html_comment_text_set(c, cp(&s0), s0.len())),
                "fail" => {
                    fail = true;
                    "fail"
                }
                // s_before/s_after/s_replace: exported by the library but not declared in lol_html.h
                _ => "unknown-op",
            }
        };
        if r == "err" {
            take_error(ctx, &h.hid);
        }
        res.push(json!({"op": name, "a": a, "r": r}));
        if fail {
            break;
        }
    }
    if !res.is_empty() {
        ev["ops"] = json!(res);
        ev["post"] = json!({"text": cps(ctx, unsafe { lol_html_comment_text_get(c) })});
    }
    ev["fail"] = json!(must_fail || fail);
    push(ctx, ev);
    directive(ctx, must_fail || fail)
}

unsafe extern "C" fn cb_text(t: *mut TextChunk<'_>, ud: *mut c_void) -> RewriterDirective {
    let h = unsafe { &*(ud as *const HandlerUd) };
    let ctx = &h.ctx;
    let (inv, must_fail, sink_len, _) = begin_inv(ctx);
    let mut fail = false;
    // text chunk content is borrowed: copy it now, never free it
    let content: RawStr =
        unsafe { std::mem::transmute::<TextChunkContent, RawStr>(lol_html_text_chunk_content_get(t)) };
    let text = if content.data.is_null() {
        String::new()
    } else {
        String::from_utf8_lossy(unsafe {
            std::slice::from_raw_parts(content.data as *const u8, content.len)
        })
        .into_owned()
    };
    let last = unsafe { lol_html_text_chunk_is_last_in_text_node(t) };
    // NOTE: lol_html.h has no accessor for the text type: the `tt` key cannot be produced
    let mut ev = unsafe {
        json!({"e":"ev","k":"tx","h":h.hid,"inv":inv,"sl":sink_len,
            "text": s2cp(&text), "last": last,
            "loc": loc(lol_html_text_chunk_source_location_bytes(t)),
            "removed": lol_html_text_chunk_is_removed(t)})
    };
    let mut res = Vec::new();
    for op in &h.script {
        if op.get("last").and_then(|x| x.as_bool()).unwrap_or(false) && !last {
            continue;
        }
        if op.get("nonempty").and_then(|x| x.as_bool()).unwrap_or(false) && text.is_empty() {
            continue;
        }
        let (name, a, s0) = op_parts(op);
        let r = unsafe {
            match name {
                "before" => rc(lol_html_text_chunk_before(t, cp(&s0), s0.len(), is_html(a.get(1)))),
                "after" => rc(lol_html_text_chunk_after(t, cp(&s0), s0.len(), is_html(a.get(1)))),
                "replace" => rc(lol_html_text_chunk_replace(t, cp(&s0), s0.len(), is_html(a.get(1)))),
                "remove" => {
                    lol_html_text_chunk_remove(t);
                    "ok"
                }
                "s_before" => reg_stream(ctx, t, &a, lol_html_text_chunk_streaming_before),
                "s_after" => reg_stream(ctx, t, &a, lol_html_text_chunk_streaming_after),
                "s_replace" => reg_stream(ctx, t, &a, lol_html_text_chunk_streaming_replace),
                "fail" => {
                    fail = true;
                    "fail"
                }
                // `set_str` has no C counterpart
                _ => "unknown-op",
            }
        };
        if r == "err" {
            take_error(ctx, &h.hid);
        }
        res.push(json!({"op": name, "a": a, "r": r}));
        if fail {
            break;
        }
    }
    if !res.is_empty() {
        ev["ops"] = json!(res);
    }
    ev["fail"] = json!(must_fail || fail);
    push(ctx, ev);
    directive(ctx, must_fail || fail)
}

unsafe extern "C" fn cb_doctype(d: *mut Doctype<'_>, ud: *mut c_void) -> RewriterDirective {
    let h = unsafe { &*(ud as *const HandlerUd) };
    let ctx = &h.ctx;
    let (inv, must_fail, sink_len, _) = begin_inv(ctx);
    let mut fail = false;
    let mut ev = unsafe {
        json!({"e":"ev","k":"dt","h":h.hid,"inv":inv,"sl":sink_len,
            "name": opt_cps(ctx, lol_html_doctype_name_get(d)),
            "pub": opt_cps(ctx, lol_html_doctype_public_id_get(d)),
            "sys": opt_cps(ctx, lol_html_doctype_system_id_get(d)),
            "loc": loc(lol_html_doctype_source_location_bytes(d)),
            "removed": lol_html_doctype_is_removed(d)})
    };
    let mut res = Vec::new();
    for op in &h.script {
        let name = op["op"].as_str().unwrap_or("");
        let r = match name {
            "remove" => {
                unsafe { lol_html_doctype_remove(d) };
                "ok"
            }
            "fail" => {
                fail = true;
                "fail"
            }
            _ => "unknown-op",
        };
        res.push(json!({"op": name, "a": [], "r": r}));
        if fail {
            break;
        }
    }
    if !res.is_empty() {
        ev["ops"] = json!(res);
    }
    ev["fail"] = json!(must_fail || fail);
    push(ctx, ev);
    directive(ctx, must_fail || fail)
}

unsafe extern "C" fn cb_doc_end(d: *mut DocumentEnd<'_>, ud: *mut c_void) -> RewriterDirective {
    let h = unsafe { &*(ud as *const HandlerUd) };
    let ctx = &h.ctx;
    let (inv, must_fail, sink_len, _) = begin_inv(ctx);
    let mut fail = false;
    let mut ev = json!({"e":"ev","k":"de","h":h.hid,"inv":inv,"sl":sink_len});
    let mut res = Vec::new();
    for op in &h.script {
        let (name, a, s0) = op_parts(op);
        let r = match name {
            "append" => rc(unsafe { lol_html_doc_end_append(d, cp(&s0), s0.len(), is_html(a.get(1))) }),
            "fail" => {
                fail = true;
                "fail"
            }
            _ => "unknown-op",
        };
        if r == "err" {
            take_error(ctx, &h.hid);
        }
        res.push(json!({"op": name, "a": a, "r": r}));
        if fail {
            break;
        }
    }
    if !res.is_empty() {
        ev["ops"] = json!(res);
    }
    ev["fail"] = json!(must_fail || fail);
    push(ctx, ev);
    directive(ctx, must_fail || fail)
}

unsafe extern "C" fn cb_sink(chunk: *const c_char, len: usize, ud: *mut c_void) {
    let u = unsafe { &*(ud as *const SinkUd) };
    let bytes: &[u8] = if len == 0 || chunk.is_null() {
        &[]
    } else {
        unsafe { std::slice::from_raw_parts(chunk as *const u8, len) }
    };
    let mut c = u.ctx.borrow_mut();
    c.sink_len += bytes.len();
    c.tl.push(json!({"e":"chunk","b":bytes}));
}

// ---------------------------------------------------------------------------------------------
// run

fn script_of(v: Option<&Value>) -> Option<Vec<Value>> {
    v.and_then(|x| x.as_array()).cloned()
}

fn classify(ctx: &SCtx, msg: Option<&str>) -> &'static str {
    let m = msg.unwrap_or("");
    if m == "The memory limit has been exceeded." {
        "err:mem"
    } else if m.starts_with("The parser has encountered a text content tag") {
        "err:ambiguity"
    } else if ctx.borrow().stopped {
        "err:handler"
    } else {
        "err:other"
    }
}

/// After `write`/`end` returned non-zero: take the message (twice if asked) and build the `ret` event.
fn failure_ret(ctx: &SCtx, opts: &CapiOpts, whr: &str) -> Value {
    let msg = take_error(ctx, whr);
    if opts.double_take_error {
        take_error(ctx, "second");
    }
    let res = classify(ctx, msg.as_deref());
    let sl = ctx.borrow().sink_len;
    let mut v = json!({"e":"ret","res":res,"sl":sl,"cmsg":msg});
    if res == "err:other" {
        v["msg"] = json!(msg);
    }
    v
}

struct Built {
    builder: *mut HtmlRewriterBuilder,
    builder_freed: bool,
    selectors: Vec<*mut Selector>,
    selectors_freed: bool,
    uds: Vec<*mut HandlerUd>,
}
impl Built {
    unsafe fn free_builder(&mut self, ctx: &SCtx) {
        if !self.builder_freed {
            unsafe { lol_html_rewriter_builder_free(self.builder) };
            self.builder_freed = true;
            api(ctx, "builder_free", json!("void"));
        }
    }
    /// The header demands that dependant builders are gone first.
    unsafe fn free_selectors(&mut self, ctx: &SCtx) {
        unsafe { self.free_builder(ctx) };
        if !self.selectors_freed {
            for s in self.selectors.drain(..) {
                unsafe { lol_html_selector_free(s) };
                api(ctx, "selector_free", json!("void"));
            }
            self.selectors_freed = true;
        }
    }
    /// Releases everything that is still owned by the client, in the order the header permits.
    unsafe fn finish(mut self, ctx: &SCtx) {
        unsafe {
            self.free_selectors(ctx);
            // late string release: the content must still be intact
            let late: Vec<(RawStr, Vec<u8>)> = std::mem::take(&mut ctx.borrow_mut().late_strs);
            if ctx.borrow().late {
                let n = late.len();
                let mut intact = true;
                for (r, copy) in late {
                    let now = std::slice::from_raw_parts(r.data as *const u8, r.len);
                    intact &= now == &copy[..];
                    free_raw(r);
                    ctx.borrow_mut().strs_freed += 1;
                }
                push(ctx, json!({"e":"api","op":"late_str_free","n":n,"intact":intact}));
            }
            for u in self.uds.drain(..) {
                free_ud(ctx, u);
            }
            let ets: Vec<*mut HandlerUd> = std::mem::take(&mut ctx.borrow_mut().et_uds);
            for u in ets {
                free_ud(ctx, u);
            }
        }
    }
}

fn run_inner(cfg: &Value, input: &[u8], cuts: &[usize], opts: &CapiOpts, ctx: &SCtx) {
    unsafe {
        let builder = lol_html_rewriter_builder_new();
        api(ctx, "builder_new", json!(if builder.is_null() { "NULL" } else { "ptr" }));
        let mut b = Built {
            builder,
            builder_freed: false,
            selectors: Vec::new(),
            selectors_freed: false,
            uds: Vec::new(),
        };
        let mk = |b: &mut Built, sc: Option<Vec<Value>>, hid: String| -> *mut c_void {
            match sc {
                Some(script) => {
                    let p = alloc_ud(ctx, HandlerUd { ctx: ctx.clone(), script, hid });
                    b.uds.push(p);
                    p as *mut c_void
                }
                None => ptr::null_mut(),
            }
        };
        if let Some(elems) = cfg.get("elem").and_then(|x| x.as_array()) {
            for (i, eh) in elems.iter().enumerate() {
                let sel_s = eh["sel"].as_str().unwrap_or("*");
                let sel = lol_html_selector_parse(cp(sel_s), sel_s.len());
                api(ctx, "selector_parse", json!(if sel.is_null() { "NULL" } else { "ptr" }));
                if sel.is_null() {
                    take_error(ctx, "selector_parse");
                    push(ctx, json!({"e":"new","res":"err:selector"}));
                    b.finish(ctx);
                    return;
                }
                b.selectors.push(sel);
                let el_sc = script_of(eh.get("element"));
                let tx_sc = script_of(eh.get("text"));
                let cm_sc = script_of(eh.get("comments"));
                let (has_el, has_tx, has_cm) = (el_sc.is_some(), tx_sc.is_some(), cm_sc.is_some());
                let el_ud = mk(&mut b, el_sc, format!("e{i}.el"));
                let tx_ud = mk(&mut b, tx_sc, format!("e{i}.tx"));
                let cm_ud = mk(&mut b, cm_sc, format!("e{i}.cm"));
                let r = lol_html_rewriter_builder_add_element_content_handlers(
                    b.builder,
                    sel,
                    if has_el { Some(cb_element) } else { None },
                    el_ud,
                    if has_cm { Some(cb_comment) } else { None },
                    cm_ud,
                    if has_tx { Some(cb_text) } else { None },
                    tx_ud,
                );
                api(ctx, "add_element_content_handlers", json!(r));
            }
        }
        if let Some(docs) = cfg.get("doc").and_then(|x| x.as_array()) {
            for (j, dh) in docs.iter().enumerate() {
                let dt_sc = script_of(dh.get("doctype"));
                let cm_sc = script_of(dh.get("comments"));
                let tx_sc = script_of(dh.get("text"));
                let de_sc = script_of(dh.get("end"));
                let (has_dt, has_cm, has_tx, has_de) =
                    (dt_sc.is_some(), cm_sc.is_some(), tx_sc.is_some(), de_sc.is_some());
                let dt_ud = mk(&mut b, dt_sc, format!("d{j}.dt"));
                let cm_ud = mk(&mut b, cm_sc, format!("d{j}.cm"));
                let tx_ud = mk(&mut b, tx_sc, format!("d{j}.tx"));
                let de_ud = mk(&mut b, de_sc, format!("d{j}.de"));
                lol_html_rewriter_builder_add_document_content_handlers(
                    b.builder,
                    if has_dt { Some(cb_doctype) } else { None },
                    dt_ud,
                    if has_cm { Some(cb_comment) } else { None },
                    cm_ud,
                    if has_tx { Some(cb_text) } else { None },
                    tx_ud,
                    if has_de { Some(cb_doc_end) } else { None },
                    de_ud,
                );
                api(ctx, "add_document_content_handlers", json!("void"));
            }
        }

        let label = cfg.get("enc").and_then(|x| x.as_str()).unwrap_or("utf-8");
        let mut mem = RawMem {
            preallocated_parsing_buffer_size: 1024,
            max_allowed_memory_usage: usize::MAX,
            graceful_bail_out_on_memory_limit_exceeded: false,
        };
        if let Some(m) = cfg.get("mem") {
            if let Some(x) = m.get("max").and_then(|x| x.as_u64()) {
                mem.max_allowed_memory_usage = x as usize;
            }
            if let Some(x) = m.get("prealloc").and_then(|x| x.as_u64()) {
                mem.preallocated_parsing_buffer_size = x as usize;
            }
            // the header does expose this flag in lol_html_memory_settings_t
            if let Some(x) = m.get("graceful").and_then(|x| x.as_bool()) {
                mem.graceful_bail_out_on_memory_limit_exceeded = x;
            }
        }
        // SAFETY: lol_html::MemorySettings is `repr(C)` with exactly these three fields
        let mem: lol_html::MemorySettings = std::mem::transmute::<RawMem, lol_html::MemorySettings>(mem);
        let strict = cfg.get("strict").and_then(|x| x.as_bool()).unwrap_or(true);
        let esi = cfg.get("esi").and_then(|x| x.as_bool()).unwrap_or(false);
        let sink_ud = alloc_ud(ctx, SinkUd { ctx: ctx.clone() });
        let rw = if esi {
            unstable_lol_html_rewriter_build_with_esi_tags(
                b.builder,
                cp(label),
                label.len(),
                mem,
                cb_sink,
                sink_ud as *mut c_void,
                strict,
            )
        } else {
            lol_html_rewriter_build(b.builder, cp(label), label.len(), mem, cb_sink, sink_ud as *mut c_void, strict)
        };
        api(ctx, "rewriter_build", json!(if rw.is_null() { "NULL" } else { "ptr" }));
        if rw.is_null() {
            let m = take_error(ctx, "rewriter_build");
            if opts.double_take_error {
                take_error(ctx, "second");
            }
            match m.as_deref() {
                Some("Unknown character encoding has been provided.")
                | Some("Expected ASCII-compatible encoding.") => {
                    push(ctx, json!({"e":"new","res":"err:encoding"}));
                }
                other => {
                    // `lol_html_rewriter_build` turns a panic of `HtmlRewriter::new` into NULL plus
                    // the panic message: same shape as the Rust driver's caught panic
                    push(ctx, json!({"e":"call","op":"new"}));
                    if let Some(e) = encoding_rs::Encoding::for_label_no_replacement(label.as_bytes()) {
                        push(ctx, json!({"e":"enc","v":e.name()}));
                    }
                    push(ctx, json!({"e":"ret","res":format!("panic:{}", other.unwrap_or(""))}));
                }
            }
            b.finish(ctx);
            free_ud(ctx, sink_ud);
            return;
        }
        // nothing observable happens between these three in the C API (no set_encoding callback)
        push(ctx, json!({"e":"call","op":"new"}));
        let enc_name = encoding_rs::Encoding::for_label_no_replacement(label.as_bytes())
            .map(|e| e.name())
            .unwrap_or("?");
        push(ctx, json!({"e":"enc","v":enc_name}));
        push(ctx, json!({"e":"ret","res":"ok"}));

        if opts.free_builder_early {
            b.free_builder(ctx);
        }
        if opts.free_selectors_early {
            b.free_selectors(ctx);
        }

        let mut failed = false;
        for ch in chunks_of(input, cuts) {
            push(ctx, json!({"e":"call","op":"write","b":ch}));
            let r = lol_html_rewriter_write(rw, ch.as_ptr() as *const c_char, ch.len());
            api(ctx, "rewriter_write", json!(r));
            if r == 0 {
                let sl = ctx.borrow().sink_len;
                push(ctx, json!({"e":"ret","res":"ok","sl":sl}));
            } else {
                let v = failure_ret(ctx, opts, "rewriter_write");
                push(ctx, v);
                // the rewriter is poisoned now: only `free` is allowed
                failed = true;
                break;
            }
        }
        if !failed && !opts.skip_end {
            push(ctx, json!({"e":"call","op":"end"}));
            let r = lol_html_rewriter_end(rw);
            api(ctx, "rewriter_end", json!(r));
            if r == 0 {
                let sl = ctx.borrow().sink_len;
                push(ctx, json!({"e":"ret","res":"ok","sl":sl}));
            } else {
                let v = failure_ret(ctx, opts, "rewriter_end");
                push(ctx, v);
            }
        }
        lol_html_rewriter_free(rw);
        api(ctx, "rewriter_free", json!("void"));
        b.finish(ctx);
        free_ud(ctx, sink_ud);
    }
}

/// Same rewrite as `driver::run(cfg, input, cuts, &RunOpts::default())`, through the C API.
pub fn run_capi(cfg: &Value, input: &[u8], cuts: &[usize], opts: &CapiOpts) -> Vec<Value> {
    let fail_at = cfg.get("fail_at").and_then(|x| x.as_u64()).map(|x| x as usize);
    let full = cfg.get("full").and_then(|x| x.as_bool()).unwrap_or(false);
    let ctx = new_ctx(fail_at, full, opts.late_str_free);
    // a stale message of an earlier run on this thread must not be attributed to this one
    free_raw(raw_of(lol_html_take_last_error()));
    if opts.untaken_selector_error {
        let bad = "div[";
        let p = unsafe { lol_html_selector_parse(cp(bad), bad.len()) };
        push(&ctx, json!({"e":"api","op":"selector_parse_untaken","r": if p.is_null() { "NULL" } else { "ptr" }}));
        if !p.is_null() { unsafe { lol_html_selector_free(p) }; }
    }
    run_inner(cfg, input, cuts, opts, &ctx);
    if opts.untaken_selector_error {
        // leave the thread's slot clean for the next run of this process
        free_raw(raw_of(lol_html_take_last_error()));
    }
    let (obtained, freed, live) = {
        let c = ctx.borrow();
        (c.strs_obtained, c.strs_freed, c.live)
    };
    push(&ctx, json!({"e":"api","op":"strcheck","obtained":obtained,"freed":freed}));
    push(&ctx, json!({"e":"api","op":"leakcheck","live":live}));
    let tl = std::mem::take(&mut ctx.borrow_mut().tl);
    tl
}

// ---------------------------------------------------------------------------------------------
// error reporting probe

struct ProbeUd {
    ctx: SCtx,
}
unsafe extern "C" fn cb_probe_el(el: *mut Element<'_, '_>, ud: *mut c_void) -> RewriterDirective {
    let u = unsafe { &*(ud as *const ProbeUd) };
    let ctx = &u.ctx;
    unsafe {
        for (name, what) in [("a b", "set_attribute(name with space)"), ("", "set_attribute(empty name)")] {
            let r = lol_html_element_set_attribute(el, cp(name), name.len(), cp("v"), 1);
            probe_rec(ctx, what, json!(r));
        }
        let bad: [u8; 2] = [0xff, 0xfe];
        let r = lol_html_element_set_attribute(el, bad.as_ptr() as *const c_char, 2, cp("v"), 1);
        probe_rec(ctx, "set_attribute(invalid utf-8 name)", json!(r));
        let s = raw_of(lol_html_element_get_attribute(el, bad.as_ptr() as *const c_char, 2));
        let null = s.data.is_null();
        free_raw(s);
        probe_rec(ctx, "get_attribute(invalid utf-8 name)", json!(if null { "NULL" } else { "ptr" }));
        let r = lol_html_element_has_attribute(el, bad.as_ptr() as *const c_char, 2);
        probe_rec(ctx, "has_attribute(invalid utf-8 name)", json!(r));
        let r = lol_html_element_tag_name_set(el, cp("a b"), 3);
        probe_rec(ctx, "tag_name_set(name with space)", json!(r));
    }
    RewriterDirective::Continue
}
unsafe extern "C" fn cb_probe_sink(_c: *const c_char, _l: usize, _ud: *mut c_void) {}

/// Records the return value, the error text and the result of a second take.
fn probe_rec(ctx: &SCtx, what: &str, ret: Value) {
    let first = take_str(ctx, lol_html_take_last_error());
    let second = raw_of(lol_html_take_last_error());
    let second_null = second.data.is_null();
    free_raw(second);
    push(ctx, json!({"e":"probe","what":what,"ret":ret,"err":first,"second_take_null":second_null}));
}

pub fn capi_error_probe() -> Vec<Value> {
    let ctx = new_ctx(None, false, false);
    free_raw(raw_of(lol_html_take_last_error()));
    let mem = || -> lol_html::MemorySettings {
        unsafe {
            std::mem::transmute::<RawMem, lol_html::MemorySettings>(RawMem {
                preallocated_parsing_buffer_size: 0,
                max_allowed_memory_usage: usize::MAX,
                graceful_bail_out_on_memory_limit_exceeded: false,
            })
        }
    };
    unsafe {
        // no pending error at the start
        probe_rec(&ctx, "nothing", json!(null));
        let s = lol_html_selector_parse(cp("div["), 4);
        probe_rec(&ctx, "selector_parse(\"div[\")", json!(if s.is_null() { "NULL" } else { "ptr" }));
        if !s.is_null() {
            lol_html_selector_free(s);
        }
        let bad: [u8; 3] = [b'a', 0xff, 0xfe];
        let s = lol_html_selector_parse(bad.as_ptr() as *const c_char, bad.len());
        probe_rec(&ctx, "selector_parse(invalid utf-8)", json!(if s.is_null() { "NULL" } else { "ptr" }));
        if !s.is_null() {
            lol_html_selector_free(s);
        }
        let b = lol_html_rewriter_builder_new();
        for label in ["no-such-encoding", "utf-16", "replacement"] {
            let rw = lol_html_rewriter_build(b, cp(label), label.len(), mem(), cb_probe_sink, ptr::null_mut(), true);
            probe_rec(
                &ctx,
                &format!("rewriter_build(encoding {label:?})"),
                json!(if rw.is_null() { "NULL" } else { "ptr" }),
            );
            if !rw.is_null() {
                lol_html_rewriter_free(rw);
            }
        }
        let sel = lol_html_selector_parse(cp("*"), 1);
        let ud = alloc_ud(&ctx, ProbeUd { ctx: ctx.clone() });
        let r = lol_html_rewriter_builder_add_element_content_handlers(
            b,
            sel,
            Some(cb_probe_el),
            ud as *mut c_void,
            None,
            ptr::null_mut(),
            None,
            ptr::null_mut(),
        );
        probe_rec(&ctx, "add_element_content_handlers", json!(r));
        let rw = lol_html_rewriter_build(b, cp("utf-8"), 5, mem(), cb_probe_sink, ptr::null_mut(), true);
        probe_rec(&ctx, "rewriter_build(encoding \"utf-8\")", json!(if rw.is_null() { "NULL" } else { "ptr" }));
        let doc = "<p x=1>";
        let r = lol_html_rewriter_write(rw, cp(doc), doc.len());
        probe_rec(&ctx, "rewriter_write after handler-level errors", json!(r));
        let r = lol_html_rewriter_end(rw);
        probe_rec(&ctx, "rewriter_end", json!(r));
        lol_html_rewriter_free(rw);
        lol_html_rewriter_builder_free(b);
        lol_html_selector_free(sel);
        free_ud(&ctx, ud);
    }
    let live = ctx.borrow().live;
    push(&ctx, json!({"e":"api","op":"leakcheck","live":live}));
    let tl = std::mem::take(&mut ctx.borrow_mut().tl);
    tl
}

// ---------------------------------------------------------------------------------------------
// comparison with the Rust driver

fn norm_attrs(v: &mut Value) {
    if let Some(attrs) = v.get_mut("attrs").and_then(|x| x.as_array_mut()) {
        for a in attrs {
            if let Some(o) = a.as_object_mut() {
                o.remove("nl");
                o.remove("vl");
                o.remove("nr");
            }
        }
    }
}
fn norm_r(v: &mut Value) {
    match v {
        Value::Object(o) => {
            if let Some(Value::String(s)) = o.get("r") {
                if s.starts_with("err") {
                    o.insert("r".into(), json!("err"));
                }
            }
            for (_, x) in o.iter_mut() {
                norm_r(x);
            }
        }
        Value::Array(a) => {
            for x in a {
                norm_r(x);
            }
        }
        _ => {}
    }
}

/// Normalisation used by `lh capi-diff`.
pub fn normalise(tl: &[Value]) -> Vec<Value> {
    let mut out = Vec::new();
    for ev in tl {
        let mut v = ev.clone();
        match v["e"].as_str() {
            Some("api") => continue,
            Some("ret") => {
                let o = v.as_object_mut().unwrap();
                o.remove("usage");
                o.remove("max");
                // C: message of an unclassified error; Rust: panic message
                o.remove("msg");
                // the messages are compared separately (TraceCApi!MsgOk)
                o.remove("emsg");
                o.remove("cmsg");
            }
            Some("new") => {
                // Rust: "err:selector:<Debug>" / "err:encoding"; C: "err:selector" / "err:encoding"
                let r = v["res"].as_str().unwrap_or("").splitn(3, ':').take(2).collect::<Vec<_>>().join(":");
                v["res"] = json!(r);
            }
            Some("ev") => {
                norm_attrs(&mut v);
                if let Some(p) = v.get_mut("post") {
                    norm_attrs(p);
                }
                let k = v["k"].as_str().unwrap_or("").to_string();
                let o = v.as_object_mut().unwrap();
                // not observable through lol_html.h
                if k == "et" {
                    o.remove("removed");
                }
                if k == "tx" {
                    o.remove("tt");
                }
            }
            _ => {}
        }
        norm_r(&mut v);
        out.push(v);
    }
    out
}

/// `None` when equal after normalisation, else (index, rust event, c event).
pub fn first_diff(rust: &[Value], c: &[Value]) -> Option<(usize, Value, Value)> {
    let a = normalise(rust);
    let b = normalise(c);
    let n = a.len().max(b.len());
    for i in 0..n {
        let x = a.get(i).cloned().unwrap_or(Value::Null);
        let y = b.get(i).cloned().unwrap_or(Value::Null);
        if x != y {
            return Some((i, x, y));
        }
    }
    None
}
