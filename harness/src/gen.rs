//! Input, schedule and configuration generators. Nothing here judges anything.
use serde_json::{json, Value};

#[derive(Clone)]
pub struct Rng(pub u64);
impl Rng {
    pub fn new(seed: u64) -> Self {
        Rng(seed.wrapping_mul(0x9E3779B97F4A7C15) ^ 0xD1B54A32D192ED03)
    }
    pub fn next(&mut self) -> u64 {
        // splitmix64
        self.0 = self.0.wrapping_add(0x9E3779B97F4A7C15);
        let mut z = self.0;
        z = (z ^ (z >> 30)).wrapping_mul(0xBF58476D1CE4E5B9);
        z = (z ^ (z >> 27)).wrapping_mul(0x94D049BB133111EB);
        z ^ (z >> 31)
    }
    pub fn below(&mut self, n: usize) -> usize {
        if n == 0 {
            0
        } else {
            (self.next() % (n as u64)) as usize
        }
    }
    pub fn chance(&mut self, num: usize, den: usize) -> bool {
        self.below(den) < num
    }
    pub fn pick<'a, T>(&mut self, v: &'a [T]) -> &'a T {
        &v[self.below(v.len())]
    }
}

/// The fragment alphabet: every tokenizer construct, truncated constructs, all text-mode elements,
/// select/template/frameset/table tags, foreign content, case variants.
pub const FRAGS: &[&str] = &[
    // text and character references
    "x", "hello ", " ", "\n", "&amp;", "&", "a&b;c", "\0", "\r\n", "é", "日本", "😀", "\u{FEFF}", "a\u{FEFF}b",
    // ordinary tags and attribute syntaxes
    "<a>", "</a>", "<A>", "</A >", "<div>", "</div>", "<p>", "</p>", "<b>", "</b>", "<br>", "<br/>",
    "<img src=x>", "<a href=x>", "<a href='x y'>", "<a href=\"x>y\">", "<a b>", "<a b c=d>",
    "<a b=c b=d>", "<a B=C>", "<a / b>", "<a b/>", "<a b=c/>", "<a b='c'/>", "<a =b>", "<a b==c>",
    "<a b = c>", "<a\tb\n=\n'c'>", "<a b=\"\">", "<a \"=x>", "<a b=c'd>", "<a b=<>", "<a<b>",
    "<input>", "<input/>", "<hr>", "<meta charset=utf-8>", "<li>", "</li>", "<span class=c id=i>", "</span>",
    "<verylongtagname1>", "</verylongtagname1>", "<h1>", "</h1>", "<a-b>", "</a-b>", "<é>",
    // text-mode elements
    "<title>", "</title>", "</TITLE>", "</title >", "</title/>", "</titl>", "</titlex>", "<textarea>", "</textarea>",
    "<script>", "</script>", "</SCRIPT>", "</script >", "<style>", "</style>", "<xmp>", "</xmp>",
    "<iframe>", "</iframe>", "<noembed>", "</noembed>", "<noframes>", "</noframes>",
    "<noscript>", "</noscript>", "<plaintext>", "</plaintext>", "<script/>", "<title/>",
    "<!DOCTYPE html PUBLIC \"\" \"\">", "<!DOCTYPE html SYSTEM \"\">", "<a href>", "<a href=\"\" id=''>", "<!---->x",
    "<textarea x=>", "<title a=>", "<script a= >", "<style x=\"\">", "<xmp a=b/>", "<b>bold</b>", "<i id=fake>",
    // script data escapes
    "<!--", "-->", "<script", "</script", "<!--<script>", "<!-- </script>", "--!>", "<!-", "<!--x-->",
    // select / template / frameset / tables
    "<select>", "</select>", "<option>", "</option>", "<optgroup>", "<template>", "</template>",
    "<frameset>", "</frameset>", "<frame>", "<table>", "</table>", "<colgroup>", "<col>", "<tr>", "</tr>",
    "<td>", "</td>", "<caption>", "<tbody>", "<keygen>", "<body>", "</body>", "<html>", "</html>", "<head>", "</head>",
    // comments, doctypes, cdata, bogus
    "<!-->", "<!--->", "<!---->", "<!--a--!>", "<!-- - -- -->", "<!--x", "<!DOCTYPE html>", "<!doctype html>",
    "<!DOCTYPE html PUBLIC \"-//W3C//DTD HTML 4.01//EN\" \"http://www.w3.org/TR/html4/strict.dtd\">",
    "<!DOCTYPE html SYSTEM 'about:legacy-compat'>", "<!DOCTYPE>", "<!DOCTYPE ", "<!DOCTYPEhtml>", "<!DOC", "<!DOCTYPE html PUBLIC",
    "<![CDATA[", "]]>", "]]", "]", "<![CDATA[x]]>", "<![CDAT", "<?xml?>", "<?", "</>", "</ >", "</ a>", "<3", "< a>", "<!x>", "<!>",
    // foreign content
    "<svg>", "</svg>", "<math>", "</math>", "<mi>", "</mi>", "<foreignObject>", "</foreignObject>", "<desc>", "</desc>",
    "<svg/>", "<path/>", "<path>", "</path>", "<circle r=1 />", "<font color=red>", "<font>", "</font>", "<annotation-xml encoding=text/html>",
    "<annotation-xml encoding=\"application/xhtml+xml\">", "<annotation-xml>", "</annotation-xml>", "<mglyph>", "<malignmark>", "<mtext>", "</mtext>",
    "<svg><title>", "<svg><script>", "<math><mi><title>",
    // truncated constructs
    "<", "</", "<a", "<a ", "<a b", "<a b=", "<a b=\"x", "<a b='x", "<a b=x", "</a", "</a ", "<!", "<!-", "<!--x-", "<!--x--",
];

pub fn frag_bytes(i: usize) -> &'static [u8] {
    FRAGS[i].as_bytes()
}

pub fn random_input(rng: &mut Rng, min_frags: usize, max_frags: usize) -> Vec<u8> {
    let n = min_frags + rng.below(max_frags - min_frags + 1);
    let mut v = Vec::new();
    for _ in 0..n {
        v.extend_from_slice(frag_bytes(rng.below(FRAGS.len())));
    }
    v
}

/// Random input biased to keep elements balanced (so that selectors match and content nests).
pub fn random_doc(rng: &mut Rng, max_nodes: usize) -> Vec<u8> {
    const NAMES: &[&str] = &["div", "a", "p", "span", "b", "title", "script", "svg", "select", "table", "td", "textarea", "style", "math", "mi"];
    const VOIDS: &[&str] = &["br", "img", "input", "hr", "meta"];
    let mut out = Vec::new();
    let mut stack: Vec<&str> = Vec::new();
    let n = 1 + rng.below(max_nodes);
    for _ in 0..n {
        match rng.below(10) {
            0..=2 => {
                let nm = *rng.pick(NAMES);
                out.extend_from_slice(format!("<{nm}").as_bytes());
                if rng.chance(1, 2) {
                    out.extend_from_slice(rng.pick(&[" id=i", " class=c", " href='x'", " x=\"y z\"", " A", " a=1 a=2"]).as_bytes());
                }
                out.push(b'>');
                stack.push(nm);
            }
            3 => {
                let nm = *rng.pick(VOIDS);
                out.extend_from_slice(format!("<{nm}>").as_bytes());
            }
            4..=5 => {
                if let Some(nm) = stack.pop() {
                    out.extend_from_slice(format!("</{nm}>").as_bytes());
                }
            }
            6 => out.extend_from_slice(b"<!--c-->"),
            7 => out.extend_from_slice(frag_bytes(rng.below(FRAGS.len()))),
            _ => out.extend_from_slice(rng.pick(&["text", "x", " ", "a&amp;b", "é", "1 < 2"]).as_bytes()),
        }
    }
    if rng.chance(2, 3) {
        while let Some(nm) = stack.pop() {
            out.extend_from_slice(format!("</{nm}>").as_bytes());
        }
    }
    out
}

/// Every fragment behind already-consumed bytes and followed by more input (so that every construct is
/// met at a non-zero buffer offset and at every cut position).
pub fn framed_inputs() -> Vec<Vec<u8>> {
    let mut v = Vec::new();
    for i in 0..FRAGS.len() {
        let f = frag_bytes(i);
        let mut a = b"x".to_vec(); a.extend_from_slice(f); v.push(a);
        let mut b = b"<p>t".to_vec(); b.extend_from_slice(f); b.extend_from_slice(b"y</p>"); v.push(b);
        let mut c = b"<!--c-->".to_vec(); c.extend_from_slice(f); c.extend_from_slice(b"<a>"); v.push(c);
    }
    v
}

/// Well-nested SVG / MathML islands: explicitly closed elements, CDATA, self-closing syntax, integration
/// points with HTML inside, names the tag-name hash cannot represent, font / annotation-xml special cases.
pub fn foreign_doc(rng: &mut Rng, max_nodes: usize) -> Vec<u8> {
    fn node(rng: &mut Rng, out: &mut Vec<u8>, ns: u8, depth: usize, budget: &mut usize) {
        // ns: 0 html, 1 svg, 2 mathml
        if *budget == 0 { return; }
        *budget -= 1;
        // (no <p>: a block element inside it closes it implicitly and leaves a stray </p>, i.e. HTML that is not well nested;
        // html5ever's tree builder then reports an HTML adjusted current node after the integration point is closed)
        // (no <a> either: an <a> start tag while another <a> is open runs the adoption agency algorithm, which closes the outer
        // one and everything inside it, islands included -- HTML that is not well nested)
        let html_names: &[&str] = &["div", "b", "span", "x-y", "section", "verylongtagname12", "em", "i"];
        let svg_names: &[&str] = &["g", "path", "circle", "x-unit", "text", "a", "font", "title", "desc", "foreignObject", "script", "style", "linearGradient", "font-face", "input", "link", "col"];
        let math_names: &[&str] = &["mrow", "mi", "mo", "mn", "ms", "mtext", "annotation-xml", "x-y", "mglyph", "font", "semantics", "source", "verylongmathname1"];
        let r = rng.below(12);
        if r < 2 { out.extend_from_slice(rng.pick(&["t", "1 ", "x&amp;y", "é"]).as_bytes()); return; }
        if r == 2 { out.extend_from_slice(b"<!--c-->"); return; }
        if r == 3 && ns != 0 { out.extend_from_slice(rng.pick(&["<![CDATA[x<y]]>", "<![CDATA[]]>", "<![CDATA[<b>]]]>"]).as_bytes()); return; }
        if r == 3 && ns == 0 { out.extend_from_slice(b"<![CDATA[x]]>"); return; }
        let (name, child_ns): (String, u8) = match ns {
            0 => {
                if depth < 3 && rng.chance(1, 3) { if rng.chance(1, 2) { ("svg".into(), 1) } else { ("math".into(), 2) } }
                else { ((*rng.pick(html_names)).to_string(), 0) }
            }
            1 => { let n = *rng.pick(svg_names); (n.to_string(), if matches!(n, "title" | "desc" | "foreignObject") { 0 } else { 1 }) }
            _ => { let n = *rng.pick(math_names); (n.to_string(), if matches!(n, "mi" | "mo" | "mn" | "ms" | "mtext") { 0 } else { 2 }) }
        };
        let shown = if rng.chance(1, 8) { name.to_ascii_uppercase() } else { name.clone() };
        let mut attrs = String::new();
        let mut child_ns = child_ns;
        if name == "annotation-xml" && rng.chance(2, 3) { attrs.push_str(*rng.pick(&[" encoding=text/html", " encoding=\"application/xhtml+xml\"", " ENCODING=TEXT/HTML", " encoding=x"])); if !attrs.ends_with("=x") { child_ns = 0; } }
        if name == "font" && rng.chance(1, 2) && ns != 0 { attrs.push_str(*rng.pick(&[" color=red", " size=1", " face=f", " id=i"])); }
        if rng.chance(1, 4) { attrs.push_str(*rng.pick(&[" id=u", " class=c", " href='x'"])); }
        if ns != 0 && rng.chance(1, 5) {
            // (a space before the slash: after an unquoted attribute value "/" would belong to the value and the element
            // would not be self-closing, i.e. not explicitly closed)
            out.extend_from_slice(format!("<{shown}{attrs}{}/>", if attrs.is_empty() { "" } else { " " }).as_bytes());
            return;
        }
        out.extend_from_slice(format!("<{shown}{attrs}>").as_bytes());
        let raw = ns == 0 && false;
        let _ = raw;
        if (name == "script" || name == "style") && ns == 1 {
            // in SVG these are ordinary elements whose content is parsed as markup
            out.extend_from_slice(b"x");
        } else {
            let kids = rng.below(4);
            for _ in 0..kids { node(rng, out, child_ns, depth + 1, budget); }
        }
        out.extend_from_slice(format!("</{shown}>").as_bytes());
    }
    let mut out = Vec::new();
    let mut budget = 2 + rng.below(max_nodes);
    while budget > 0 { node(rng, &mut out, 0, 0, &mut budget); }
    out
}

/// The shared input corpus: every fragment, every fragment framed by other input, all ordered pairs over a
/// seed-rotated pool, and seeded documents of each generator.
pub fn corpus(rng: &mut Rng, pair_pool: usize, nrand: usize) -> Vec<Vec<u8>> {
    let mut inputs: Vec<Vec<u8>> = (0..FRAGS.len()).map(|i| frag_bytes(i).to_vec()).collect();
    inputs.extend(framed_inputs());
    let mut pool: Vec<usize> = (0..FRAGS.len()).collect();
    for i in (1..pool.len()).rev() { pool.swap(i, rng.below(i + 1)); }
    pool.truncate(pair_pool);
    for &a in &pool { for &b in &pool { let mut x = frag_bytes(a).to_vec(); x.extend_from_slice(frag_bytes(b)); inputs.push(x); } }
    for i in 0..nrand {
        inputs.push(match i % 5 {
            0 => random_doc(rng, 14),
            1 => random_input(rng, 3, 9),
            2 => foreign_doc(rng, 10),
            3 => { let mut v = random_doc(rng, 8); v.extend_from_slice("<p>é日本😀</p><a href=é>".as_bytes()); v.extend_from_slice(&random_input(rng, 1, 4)); v }
            _ => { let mut v = foreign_doc(rng, 6); v.extend_from_slice(&random_input(rng, 1, 3)); v }
        });
    }
    inputs
}

pub fn random_bytes(rng: &mut Rng, max_len: usize) -> Vec<u8> {
    const POOL: &[u8] = b"<>/!-=\"' \n\t&;[]?abcstyleSCRIPT\0\x80\xc3\xa9\xff";
    let n = rng.below(max_len + 1);
    (0..n)
        .map(|_| if rng.chance(7, 8) { *rng.pick(POOL) } else { rng.below(256) as u8 })
        .collect()
}

/// Every schedule family the properties quantify over, for an input of length n.
pub fn cut_sets(n: usize, rng: &mut Rng, two_cut_max_len: usize, randoms: usize) -> Vec<Vec<usize>> {
    let mut v: Vec<Vec<usize>> = Vec::new();
    v.push(vec![]); // single write
    for i in 1..n {
        v.push(vec![i]);
    }
    if n <= two_cut_max_len {
        for i in 1..n {
            for j in (i + 1)..n {
                v.push(vec![i, j]);
            }
        }
    }
    if n >= 2 {
        v.push((1..n).collect()); // byte-wise
        // byte-wise with interleaved empty writes
        let mut e = Vec::new();
        for i in 1..n {
            e.push(i);
            e.push(i);
        }
        v.push(e);
    }
    v.push(vec![0]); // leading empty write
    v.push(vec![n]); // trailing empty write
    for _ in 0..randoms {
        let k = 1 + rng.below(6);
        let mut c: Vec<usize> = (0..k).map(|_| rng.below(n + 1)).collect();
        c.sort_unstable();
        v.push(c);
    }
    v
}

pub fn light_cut_sets(n: usize, rng: &mut Rng, randoms: usize) -> Vec<Vec<usize>> {
    let mut v: Vec<Vec<usize>> = vec![vec![]];
    if n >= 2 {
        v.push((1..n).collect());
    }
    for _ in 0..randoms {
        let k = 1 + rng.below(4);
        let mut c: Vec<usize> = (0..k).map(|_| rng.below(n + 1)).collect();
        c.sort_unstable();
        v.push(c);
    }
    v
}

/// Observer handler sets (no mutation): name -> cfg fragment.
pub fn observer_sets() -> Vec<(&'static str, Value)> {
    let obs = json!([]);
    vec![
        ("none", json!({})),
        ("doc-all", json!({"doc":[{"doctype":obs,"comments":obs,"text":obs,"end":obs}]})),
        ("doc-text", json!({"doc":[{"text":obs}]})),
        ("doc-comments", json!({"doc":[{"comments":obs}]})),
        ("doc-doctype-end", json!({"doc":[{"doctype":obs,"end":obs}]})),
        ("star-el", json!({"elem":[{"sel":"*","element":obs}]})),
        ("star-all", json!({"elem":[{"sel":"*","element":[{"op":"on_end_tag","a":[[]]}],"text":obs,"comments":obs}]})),
        ("a-el", json!({"elem":[{"sel":"a","element":obs}]})),
        ("a-attr", json!({"elem":[{"sel":"a[href]","element":obs,"text":obs}]})),
        ("nomatch", json!({"elem":[{"sel":"nomatch","element":obs},{"sel":"x > y[z]","text":obs}]})),
        ("two-level", json!({"elem":[{"sel":"div a","element":obs},{"sel":"p > b","comments":obs,"text":obs}]})),
        ("title-text", json!({"elem":[{"sel":"title","text":obs},{"sel":"script","text":obs},{"sel":"svg","text":obs}]})),
        ("union", json!({"elem":[{"sel":"*","element":obs},{"sel":"div","text":obs,"comments":obs}],"doc":[{"doctype":obs,"comments":obs,"text":obs,"end":obs}]})),
    ]
}

pub fn merge(base: &Value, extra: &Value) -> Value {
    let mut b = base.clone();
    if let (Some(bo), Some(eo)) = (b.as_object_mut(), extra.as_object()) {
        for (k, v) in eo {
            bo.insert(k.clone(), v.clone());
        }
    }
    b
}

pub const ENCODINGS_QUICK: &[&str] = &["utf-8", "windows-1252", "shift_jis", "gb18030", "euc-kr", "x-user-defined"];
pub const ENCODINGS_ALL: &[&str] = &[
    "big5", "euc-jp", "euc-kr", "gb18030", "gbk", "ibm866", "iso-8859-2", "iso-8859-3", "iso-8859-4", "iso-8859-5",
    "iso-8859-6", "iso-8859-7", "iso-8859-8", "iso-8859-8-i", "iso-8859-10", "iso-8859-13", "iso-8859-14",
    "iso-8859-15", "iso-8859-16", "koi8-r", "koi8-u", "macintosh", "shift_jis", "utf-8", "windows-874",
    "windows-1250", "windows-1251", "windows-1252", "windows-1253", "windows-1254", "windows-1255",
    "windows-1256", "windows-1257", "windows-1258", "x-mac-cyrillic", "x-user-defined",
];


/// Words of spec/MC_TokCover.tla (the same vocabulary, byte for byte).
pub const COVER_WORDS: &[&[u8]] = &[b"<", b">", b"/", b"!", b"-", b"=", b"\"", b"'", b" ", b"]", b"?", b"a", b"A1", b"script", b"title", b"style",
    b"plaintext", b"svg", b"[CDATA[", b"DOCTYPE", b"PUBLIC", b"system", b"--", b"]]>"];
/// A suffix that continues differently from every tokenizer state (closers of every text mode, comment, CDATA, quotes).
pub const COVER_PROBE: &[u8] = b"x <script> </script><p>h</p>--></script><b>u</b></title></style>]]><i>v</i>\"'><u>w</u>";

/// Transition-coverage inputs from the specification: spec/TokCover.tla prints one shortest witness prefix per
/// control state of the tokenizer table (REPLAY lines, file named by VERIF_REPLAY_FILE); every witness is
/// extended by every word and a closing suffix.  Returns (input, cut at the end of the witness, cut after the word).
/// quick: one witness per (state, text mode, special name, namespace, token kind); thorough: every witness.
pub fn cover_inputs(quick: bool, html_only: bool) -> Vec<(Vec<u8>, usize, usize)> {
    let path = std::env::var("VERIF_REPLAY_FILE").unwrap_or_default();
    let text = std::fs::read_to_string(&path).unwrap_or_default();
    let mut seen = std::collections::HashSet::new();
    let mut out = Vec::new();
    for line in text.lines() {
        let b: serde_json::Value = match serde_json::from_str(line) { Ok(v) => v, Err(_) => continue };
        let Some(arr) = b.get("input").and_then(|x| x.as_array()) else { continue };
        if b.get("st").is_none() || b.get("cls").is_none() { continue; }
        let p: Vec<u8> = arr.iter().map(|x| x.as_u64().unwrap_or(0) as u8).collect();
        if quick {
            let key = format!("{}|{}|{}|{}|{}|{}", b["st"], b["tt"], b["cls"], b["ns"], b["k"], b["ret"]);
            if !seen.insert(key) { continue; }
        }
        for (wi, w) in COVER_WORDS.iter().enumerate() {
            let suffixes: &[&[u8]] = if wi % 6 == 0 || (!quick && wi % 2 == 0) { &[COVER_PROBE, b""] } else { &[COVER_PROBE] };
            for sfx in suffixes {
                let mut v = p.clone(); v.extend_from_slice(w); v.extend_from_slice(sfx);
                if html_only { let low = v.to_ascii_lowercase(); if low.windows(4).any(|x| x == b"<svg") { continue; } }
                out.push((v, p.len(), p.len() + w.len()));
            }
        }
    }
    out
}


/// Inputs from spec/GuardCover.tla: one shortest tag sequence per state of the strict-mode ambiguity guard (REPLAY
/// lines with "guard_input"), each extended by every pair of tags of a vocabulary and a probe that opens a
/// text-mode element around markup.
pub fn guard_cover_inputs(quick: bool) -> Vec<Vec<u8>> {
    const TAGS: &[&str] = &["<select>", "<template>", "<textarea>", "<input>", "<keygen>", "<frameset>", "<noframes>", "<xmp>", "<title>", "<script>",
        "<div>", "<option>", "<table>", "<tr>", "<td>", "</select>", "</template>", "</frameset>", "</div>", "</table>", "</textarea>", "x"];
    const PROBES: &[&str] = &["<xmp><b>x</b></xmp><i>t</i>", "<title><i>y</i></title><p>u</p>", "<script>a<b></script><u>v</u>", "<style><a></style><noframes><c></noframes>z"];
    let path = std::env::var("VERIF_REPLAY_FILE").unwrap_or_default();
    let text = std::fs::read_to_string(&path).unwrap_or_default();
    let mut out = Vec::new();
    let mut k = 0usize;
    for line in text.lines() {
        let b: serde_json::Value = match serde_json::from_str(line) { Ok(v) => v, Err(_) => continue };
        let Some(arr) = b.get("guard_input").and_then(|x| x.as_array()) else { continue };
        if quick && b["depth"].as_u64().unwrap_or(0) > 2 { continue; }
        let p: Vec<u8> = arr.iter().map(|x| x.as_u64().unwrap_or(0) as u8).collect();
        for t1 in TAGS { for t2 in TAGS {
            let probes: Vec<&str> = if quick { k += 1; vec![PROBES[k % PROBES.len()]] } else { PROBES.to_vec() };
            for pr in probes {
                let mut v = p.clone(); v.extend_from_slice(t1.as_bytes()); v.extend_from_slice(t2.as_bytes()); v.extend_from_slice(pr.as_bytes());
                out.push(v);
            }
        } }
    }
    out
}


/// The buffer life cycle, systematically: write 1 ends inside token A (tail buffered), write 2 completes A and ends
/// deep inside a long token B (buffer partly consumed, long remainder kept), write 3 completes B and ends in text
/// (buffer emptied), write 4 ends inside token C (buffered again), write 5 the rest.  Returns (input, schedules).
pub fn buffer_cycle_cases() -> Vec<(Vec<u8>, Vec<Vec<usize>>)> {
    let mut out = Vec::new();
    for b_kind in ["name", "attr", "comment"] {
        for blen in [140usize, 300, 420] {
            let a: &[u8] = b"<a href=x id=first>";
            let mut btok = Vec::new();
            match b_kind {
                "name" => { btok.push(b'<'); for j in 0..blen { btok.push(b'a' + (j % 26) as u8); } btok.extend_from_slice(b" k=v>"); }
                "attr" => { btok.extend_from_slice(b"<img alt=\""); for j in 0..blen { btok.push(b'a' + (j % 26) as u8); } btok.extend_from_slice(b"\">"); }
                _ => { btok.extend_from_slice(b"<!--"); for j in 0..blen { btok.push(b'k' + (j % 5) as u8); } btok.extend_from_slice(b"-->"); }
            }
            let c: &[u8] = b"<b class=z data-q='r'>";
            let mut input = b"pre ".to_vec();
            let a0 = input.len(); input.extend_from_slice(a);
            input.extend_from_slice(b"t1");
            let b0 = input.len(); input.extend_from_slice(&btok);
            let t0 = input.len(); input.extend_from_slice(b" some text here ");
            let c0 = input.len(); input.extend_from_slice(c);
            input.extend_from_slice(b"end</b></a>");
            let mut scheds = Vec::new();
            for c1 in [a0 + 1, a0 + 3, a0 + a.len() - 1] {
                for c2 in [b0 + 130, b0 + btok.len() / 2 + 66, b0 + btok.len() - 1] {
                    for c3 in [t0, t0 + 5] {
                        for c4 in [c0 + 1, c0 + 2, c0 + 9, c0 + c.len() - 1] {
                            if c2 >= t0 { continue; }
                            scheds.push(vec![c1, c2, c3, c4]);
                        }
                    }
                }
            }
            out.push((input, scheds));
        }
    }
    out
}
