"""Per-property pipeline: which harness jobs record traces, which trace spec judges them,
which design-level model-checking configurations run."""

STREAM_ASSUME = [
    "TLC 1.8 evaluates the TLA+ contract faithfully; JSON (de)serialisation of the records is plumbing",
    "the harness records every OutputSink / handler / API-return event in order (single-threaded run, one shared log)",
    "inputs and schedules are generated (exhaustive over the stated finite parts, seeded elsewhere), not all byte strings",
]

TOK_ASSUME = [
    "spec/Tok.tla is a faithful transcription of HTML Standard 13.2.5 over raw bytes (no CR/NUL normalisation, no character references), evaluated by TLC",
    "the harness records handler arguments through the public getters only; identical (input, observation) pairs are judged once",
]

REGISTRY = {
    "C01": {
        "level": "model_checking",
        "traces": [{"job": "c01", "module": "TraceStream", "cfg": "TraceStream.cfg", "timeout": 900, "timeout_thorough": 7200}],
        "mc": [],
        "assumptions": STREAM_ASSUME + ["runs whose input does not round-trip through the declared encoding while a text handler is registered are protocol-checked only here; their normalisation is decided under C13"],
    },
    "C12": {
        "level": "model_checking",
        "traces": [{"job": "c12", "module": "TraceStream", "cfg": "TraceStream.cfg", "timeout": 900, "timeout_thorough": 7200}],
        "mc": [],
        "assumptions": STREAM_ASSUME,
    },
    "C15": {
        "level": "exploration",
        "traces": [{"job": "c15", "module": "TraceStream", "cfg": "TraceStream.cfg", "timeout": 900, "timeout_thorough": 7200}],
        "mc": [],
        "assumptions": STREAM_ASSUME + ["absence of panics is explored, not proved; complexity is a wall-clock observation (ceiling 20 ms/KiB)"],
    },
    "C14": {
        "level": "model_checking",
        "traces": [{"job": "c14", "module": "TraceTok", "cfg": "TraceTok.cfg", "timeout": 1200, "timeout_thorough": 10800}],
        "mc": [],
        "assumptions": TOK_ASSUME,
    },
    "C16": {
        "level": "model_checking",
        "traces": [{"job": "c16", "module": "TraceTok", "cfg": "TraceTok.cfg", "timeout": 1200, "timeout_thorough": 10800}],
        "mc": [],
        "assumptions": TOK_ASSUME + ["string equality is decided for ASCII and (in UTF-8 documents) well-formed UTF-8 slices; other slices are compared by range only here and by witnessed decoding under C13"],
    },
    "C02": {
        "level": "model_checking",
        "traces": [{"job": "c02", "module": "TraceRel", "cfg": "TraceRel.cfg", "timeout": 1200, "timeout_thorough": 10800}],
        "mc": [],
        "assumptions": ["the relation (equality up to text fragmentation) is decided by TLC on observations of the real code; identical observations are judged once", "a failing (ambiguity) run is compared on result and events only: how much output had left the rewriter is schedule-dependent by nature"],
    },
    "C06": {
        "level": "model_checking",
        "traces": [{"job": "c06", "module": "TraceRel", "cfg": "TraceRel.cfg", "timeout": 1200, "timeout_thorough": 10800}],
        "mc": [],
        "assumptions": ["the relation is decided by TLC on two real observations (H and H+O); only the events of H's handlers and all sink bytes are compared"],
    },
    "C09": {
        "level": "model_checking",
        "traces": [{"job": "c09", "module": "TraceLat", "cfg": "TraceLat.cfg", "timeout": 1200, "timeout_thorough": 10800}],
        "mc": [],
        "assumptions": TOK_ASSUME + ["LookAhead ('a few bytes') is fixed at 6 in spec/TraceLat.tla", "the absolute bound is claimed for HTML-namespace input; inside escaped script data / CDATA only schedule independence is claimed for observer configurations"],
    },
    "C04": {
        "level": "model_checking",
        "traces": [{"job": "c04", "module": "TraceSel", "cfg": "TraceSel.cfg", "timeout": 1200, "timeout_thorough": 10800}],
        "mc": [],
        "assumptions": ["spec/Selectors.tla is the reference reading of Selectors Level 4 for the supported grammar, evaluated by TLC on the tree induced by explicit tags",
                        "the harness renders selector ASTs to CSS text and tag lists to HTML (injective printers) and maps invocations to tags by source offset",
                        "namespace of each start tag (only used for 'self-closing closes a foreign element') is taken from lol-html's own report",
                        "attribute names avoid HTML's case-insensitive-value list (type, lang, ...), so the default value comparison is case-sensitive"],
    },
    "C05": {
        "level": "model_checking",
        "traces": [{"job": "c05", "module": "TraceScope", "cfg": "TraceScope.cfg", "timeout": 1200, "timeout_thorough": 10800}],
        "mc": [],
        "assumptions": ["spec/Scope.tla recomputes scopes from the open-element stack of the tag tree and the reference match sets of spec/Selectors.tla; it shares no bookkeeping scheme with lol-html",
                        "invocations are attributed to document items by source offset (plumbing); the order among end-tag handlers of different elements closed by one end tag and among several end handlers is not constrained"],
    },
    "C07": {
        "level": "model_checking",
        "traces": [{"job": "c07", "module": "TraceEdit", "cfg": "TraceEdit.cfg", "timeout": 1200, "timeout_thorough": 10800}],
        "mc": [],
        "assumptions": ["spec/Edit.tla is the reading of the rustdoc of Element/StartTag/EndTag/Comment/TextChunk/Doctype/DocumentEnd (accumulation order, removal of inner edits, void no-ops); it is applied to the operations the handlers were observed to perform in the same run",
                        "a modified start tag is expected as '<name attr...>' with untouched attributes' source bytes, one space before each attribute and ' /' kept for self-closing syntax (the current serialisation format)",
                        "unspecified by the documentation and taken from the code: remove() after replace() keeps the replacement; end-side content of elements still open at the end is dropped",
                        "UTF-8 documents, ASCII content strings (encoding of inserted content is C13)"],
    },
    "C08": {
        "level": "model_checking",
        "traces": [{"job": "c08", "module": "TraceSafe", "cfg": "TraceSafe.cfg", "timeout": 1200, "timeout_thorough": 10800}],
        "mc": [],
        "assumptions": TOK_ASSUME + ["structure is compared on the reference tokenization of output and input (kinds, names, attribute names and values with &quot; undone, comment data); text content is compared with &lt; &gt; &amp; undone, in data / RCDATA context",
                                     "'cannot be decoded differently in another supported encoding' rests on the assumption, stated in DESIGN.md, that no multi-byte trail byte of a supported encoding equals a structural ASCII byte; not re-checked here"],
    },
    "C10": {
        "level": "model_checking",
        "traces": [{"job": "c10", "module": "TraceMem", "cfg": "TraceMem.cfg", "timeout": 1200, "timeout_thorough": 10800}],
        "mc": [],
        "assumptions": ["accounted usage is read through the _verif_hooks accessor after every write(); the open-element stack item size is read from the build through the same hook",
                        "'demonstrably held' = bytes written minus bytes emitted (pass-through configurations, ASCII input) plus open elements x item size when selectors are registered",
                        "limits below the preallocation are excluded (Arena::new documents preallocation <= limit as a precondition via debug_assert; see DESIGN.md S6)"],
    },
    "C11": {
        "level": "model_checking",
        "traces": [{"job": "c11", "module": "TraceBail", "cfg": "TraceBail.cfg", "timeout": 1200, "timeout_thorough": 10800}],
        "mc": [],
        "assumptions": ["the failure-free run of the same configuration and chunking is the reference for 'normally rewritten output' (product record)",
                        "for handler failures p (failing token start) and q (sink length when the invocation started) are observed; for memory failures they are existentially quantified by the judge",
                        "the two documented exceptions (content being removed; text handler failing on a later chunk) are explicit disjuncts of the contract"],
    },
    "C13": {
        "level": "model_checking",
        "traces": [{"job": "c13", "module": "TraceEnc", "cfg": "TraceEnc.cfg", "timeout": 1200, "timeout_thorough": 10800}],
        "mc": [],
        "assumptions": TOK_ASSUME + ["Decode / Encode are witnessed functions: encoding_rs applied once to the whole slice the specification designates (decode_without_bom_handling / encode); code-point tables are encoding_rs's (trusted base)",
                                     "a string for which the record carries no witness for the slice the reference tokenizer designates is not compared (counted as unknown)"],
    },
    "C03": {
        "level": "model_checking",
        "traces": [{"job": "c03", "module": "TraceWhatwg", "cfg": "TraceWhatwg.cfg", "timeout": 1500, "timeout_thorough": 10800}],
        "mc": [],
        "assumptions": TOK_ASSUME + ["the tree builder's feedback (tokenizer state after each tag, CDATA allowed) is a witnessed function supplied by html5ever 0.39's TreeBuilder; the tokenizer state machine is the TLA+ specification",
                                     "a violation is raised only when the reference token stream also equals html5ever's own token stream; otherwise the input is counted as inconclusive",
                                     "inputs are ASCII without '&', CR and NUL (html5ever decodes / normalises them, lol-html is raw by design); later duplicate attributes are dropped on all sides"],
    },
    "C18": {
        "level": "model_checking",
        "traces": [{"job": "c18", "module": "TraceRel", "cfg": "TraceRel.cfg", "timeout": 1200, "timeout_thorough": 10800},
                   {"job": "c18s", "module": "TraceThreads", "cfg": "TraceThreads.cfg", "timeout": 1200, "timeout_thorough": 10800}],
        "mc": [{"module": "MC_Threads", "cfg": "MC_Threads.cfg", "cfg_thorough": "MC_Threads_thorough.cfg", "replay_to": True, "workers": 4, "timeout": 300, "timeout_thorough": 1800}],
        "assumptions": ["thread schedules of the last-error clause are forced step by step (one operation at a time, hand-over through channels); the free-running pool relies on the OS scheduler plus yields and spins",
                        "'identical' = results, sink bytes and the whole event list (TraceRel, clause C18)"],
    },
}
