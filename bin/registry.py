"""Per-property pipeline: which harness jobs record traces, which trace spec judges them,
which design-level model-checking configurations run."""

STREAM_ASSUME = [
    "TLC 1.8 evaluates the TLA+ contract faithfully; JSON (de)serialisation of the records is plumbing",
    "the harness records every OutputSink / handler / API-return event in order (single-threaded run, one shared log)",
    "inputs and schedules are generated (exhaustive over the stated finite parts, seeded elsewhere), not all byte strings",
]

REGISTRY = {
    "C01": {
        "level": "model_checking",
        "traces": [{"job": "c01", "module": "TraceStream", "cfg": "TraceStream.cfg", "timeout": 900, "timeout_thorough": 7200}],
        "mc": [],
        "assumptions": STREAM_ASSUME + ["runs whose input does not round-trip through the declared encoding while a text handler is registered are protocol-checked only here; their normalisation is decided under C13"],
    },
    "C12": {
        "level": "model_checking",
        "traces": [{"job": "c12", "module": "TraceStream", "cfg": "TraceStream.cfg", "timeout": 900, "timeout_thorough": 7200}],
        "mc": [],
        "assumptions": STREAM_ASSUME,
    },
    "C15": {
        "level": "exploration",
        "traces": [{"job": "c15", "module": "TraceStream", "cfg": "TraceStream.cfg", "timeout": 900, "timeout_thorough": 7200}],
        "mc": [],
        "assumptions": STREAM_ASSUME + ["absence of panics is explored, not proved; complexity is a wall-clock observation (ceiling 20 ms/KiB)"],
    },
}
