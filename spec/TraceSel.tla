---------------------------- MODULE TraceSel ----------------------------
(***************************************************************************)
(* C04: the element handler of a selector runs for exactly the start tags  *)
(* that Selectors!MatchSet says it matches.  Record:                       *)
(*   [id, doc, sels, obs : seq of [variant, inv : seq of <<sel, tag>>]]    *)
(* sel indexes sels, tag indexes doc (both 1-based).  Several observations *)
(* (all selectors together, each alone, different chunkings) are judged    *)
(* against the same expectation, which also decides "independent of which  *)
(* other selectors are registered".                                        *)
(***************************************************************************)
EXTENDS Naturals, Integers, Sequences, FiniteSets, TLC, Json, IOUtils, Selectors, DocNs

Rec == ndJsonDeserialize(IOEnv.TRACE)
VARIABLES l, nbad
vars == <<l, nbad>>

Pairs(o) == {<<o.inv[i][1], o.inv[i][2]>> : i \in 1..Len(o.inv)}
ExpectedM(r, mode) == UNION {{<<s, t>> : t \in MatchSetM(r.doc, r.sels[s], mode)} : s \in 1..Len(r.sels)}
Expected(r) == ExpectedM(r, "css")
\* classification of a rejection (Known findings): does the model of the finding explain every observation?
ExplainedBy(r, mode) == LET e == ExpectedM(r, mode) IN
  \A i \in 1..Len(r.obs) : LET o == r.obs[i] IN
     Cardinality(Pairs(o)) = Len(o.inv) /\ Pairs(o) = (IF o.only = 0 THEN e ELSE {p \in e : p[1] = o.only})
\* an observation made with only selector number o.only registered (0 = all registered)
ExpectedFor(r, o) == IF o.only = 0 THEN Expected(r) ELSE {p \in Expected(r) : p[1] = o.only}

RECURSIVE FirstBad(_, _, _)
FirstBad(r, exp, i) ==
  IF i > Len(r.obs) THEN "ok"
  ELSE LET o == r.obs[i]  e == IF o.only = 0 THEN exp ELSE {p \in exp : p[1] = o.only} IN
       IF "failed" \in DOMAIN o THEN "C04: a supported selector was refused or the run failed (" \o o.failed \o ")"
       ELSE IF Cardinality(Pairs(o)) # Len(o.inv) THEN "C04: a handler ran twice for one start tag (" \o o.variant \o ")"
       ELSE IF \E p \in Pairs(o) : p \notin e THEN "C04: handler ran for a start tag the selector does not match (" \o o.variant \o ")"
       ELSE IF \E p \in e : p \notin Pairs(o) THEN "C04: handler did not run for a start tag the selector matches (" \o o.variant \o ")"
       ELSE FirstBad(r, exp, i + 1)

Verdict(r) == LET v == FirstBad(r, Expected(r), 1) IN
  IF v = "ok" THEN v
  ELSE IF ExplainedBy(r, "kf-S2") THEN v \o " [explained-by:S2]"
  ELSE v

TInit == l = 1 /\ nbad = 0
TNext == /\ l <= Len(Rec)
         /\ LET v == Verdict(WithNs(Rec[l])) IN
            IF v = "ok" THEN UNCHANGED nbad ELSE PrintT(<<"BAD", Rec[l].id, 0, v>>) /\ nbad' = nbad + 1
         /\ l' = l + 1
TSpec == TInit /\ [][TNext]_vars
Accepted == PrintT(<<"TRACE-SUMMARY", Len(Rec), TLCGet("stats").diameter>>)
AtEnd == l = Len(Rec) + 1 => PrintT(<<"TRACE-END", l - 1, nbad>>)
=============================================================================
