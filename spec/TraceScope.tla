---------------------------- MODULE TraceScope ----------------------------
(***************************************************************************)
(* C05: the recorded handler invocations of the real rewriter equal the    *)
(* invocations Scope.tla requires: exactly the handlers in scope, exactly  *)
(* once per token (per chunk for text), in registration order with         *)
(* selector-scoped before document-level handlers, tokens in document      *)
(* order, end-tag handlers at the end tag that closes their element, the   *)
(* end handler once after everything.                                      *)
(* Record: [id, doc, elemH, docH, obs : seq of [variant, res, evs]]        *)
(* Event:  [k, item (index into doc; Len(doc)+1 = document end; 0 = not    *)
(*          attributable), cls, idx, last]                                 *)
(***************************************************************************)
EXTENDS Naturals, Integers, Sequences, FiniteSets, TLC, Json, IOUtils, Scope, DocNs

Rec == ndJsonDeserialize(IOEnv.TRACE)
VARIABLES l, nbad
vars == <<l, nbad>>

Names(evs) == [i \in 1..Len(evs) |-> <<evs[i].cls, evs[i].idx, evs[i].k>>]
At(o, i) == SelectSeq(o.evs, LAMBDA e : e.item = i)

\* s is the concatenation of n >= 1 copies of pat (pat non-empty); returns n or 0
Copies(s, pat) ==
  IF pat = <<>> \/ Len(s) = 0 \/ Len(s) % Len(pat) # 0 THEN 0
  ELSE IF \A i \in 1..Len(s) : s[i] = pat[((i - 1) % Len(pat)) + 1] THEN Len(s) \div Len(pat) ELSE 0

TextItemOk(evs, exp) ==
  IF exp = <<>> THEN evs = <<>>
  ELSE LET n == Copies(Names(evs), exp) IN
       /\ n >= 1
       \* every handler sees last_in_text_node exactly once, on its final chunk
       /\ \A i \in 1..Len(evs) : evs[i].last = (i > (n - 1) * Len(exp))

BagOf(evs) == [h \in {evs[i].idx : i \in 1..Len(evs)} |-> Cardinality({i \in 1..Len(evs) : evs[i].idx = h})]
ExpBag(bag) == [h \in {p[2] : p \in bag} |-> Cardinality({p \in bag : p[2] = h})]

ItemVerdict(r, tr, ms, o, i) ==
  LET t == r.doc[i]  evs == At(o, i) IN
  IF t.k = "et" THEN
       (IF \E j \in 1..Len(evs) : evs[j].k # "et" \/ evs[j].cls # "e" THEN "C05: a non-end-tag handler ran at an end tag"
        ELSE IF BagOf(evs) # ExpBag(EndTagBag(r.doc, tr, ms, r.elemH, i)) THEN "C05: end-tag handlers at an end tag are not exactly those of the elements it closes"
        ELSE "ok")
  ELSE LET exp == ExpectedFor(r.doc, tr, ms, r.elemH, r.docH, i) IN
       IF t.k = "tx" THEN (IF TextItemOk(evs, exp) THEN "ok" ELSE "C05: text handlers, their order or the last_in_text_node flag differ from the scope model")
       ELSE IF Names(evs) = exp THEN "ok"
       ELSE IF t.k = "st" THEN "C05: element handlers invoked differ from the scope model"
       ELSE IF t.k = "cm" THEN "C05: comment handlers invoked differ from the scope model (scope, count or order)"
       ELSE "C05: doctype handlers invoked differ from the scope model"

RECURSIVE FirstItemBad(_, _, _, _, _)
FirstItemBad(r, tr, ms, o, i) ==
  IF i > Len(r.doc) THEN "ok"
  ELSE LET v == ItemVerdict(r, tr, ms, o, i) IN IF v = "ok" THEN FirstItemBad(r, tr, ms, o, i + 1) ELSE v

\* every registered end handler exactly once, after everything else (the order among several end
\* handlers is not stated by the property: the code deliberately runs them in reverse)
EndOk(r, o) ==
  LET evs == At(o, Len(r.doc) + 1)
      exp == {j \in 1..Len(r.docH) : r.docH[j].de}
  IN /\ Len(evs) = Cardinality(exp)
     /\ {evs[i].idx : i \in 1..Len(evs)} = exp
     /\ \A i \in 1..Len(evs) : evs[i].cls = "d" /\ evs[i].k = "de"

ObsVerdict(r, tr, ms, o) ==
  IF o.res # "ok" THEN "C05: run failed: " \o o.res
  ELSE IF \E i \in 1..Len(o.evs) : o.evs[i].item = 0 THEN "C05: a handler ran for something that is not a token of the document"
  ELSE IF \E i \in 2..Len(o.evs) : o.evs[i].item < o.evs[i - 1].item THEN "C05: events are not delivered in document order"
  ELSE LET v == FirstItemBad(r, tr, ms, o, 1) IN
       IF v # "ok" THEN v
       ELSE IF ~EndOk(r, o) THEN "C05: end handlers did not run exactly once after all input"
       ELSE "ok"

RECURSIVE FirstObsBad(_, _, _, _)
FirstObsBad(r, tr, ms, i) ==
  IF i > Len(r.obs) THEN "ok"
  ELSE LET v == ObsVerdict(r, tr, ms, r.obs[i]) IN
       IF v = "ok" THEN FirstObsBad(r, tr, ms, i + 1) ELSE v \o " (" \o r.obs[i].variant \o ")"

Verdict(r) ==
  LET tr == Tree(r.doc)
      ms == [h \in 1..Len(r.elemH) |-> {i \in StartTags(r.doc) : Matches(r.doc, tr, i, r.elemH[h].sel, "css")}]
  IN FirstObsBad(r, tr, ms, 1)

TInit == l = 1 /\ nbad = 0
TNext == /\ l <= Len(Rec)
         /\ LET v == Verdict(WithNs(Rec[l])) IN
            IF v = "ok" THEN UNCHANGED nbad ELSE PrintT(<<"BAD", Rec[l].id, 0, v>>) /\ nbad' = nbad + 1
         /\ l' = l + 1
TSpec == TInit /\ [][TNext]_vars
Accepted == PrintT(<<"TRACE-SUMMARY", Len(Rec), TLCGet("stats").diameter>>)
AtEnd == l = Len(Rec) + 1 => PrintT(<<"TRACE-END", l - 1, nbad>>)
=============================================================================
