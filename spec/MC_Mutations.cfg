SPECIFICATION Spec
CONSTANTS
  Cases <- CaseSet
INVARIANT Agrees
INVARIANT AgreesDoc
CHECK_DEADLOCK FALSE
