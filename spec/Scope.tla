------------------------------- MODULE Scope -------------------------------
(***************************************************************************)
(* L0 (C05): which handler must be invoked for which token, in which       *)
(* order.  Computed from the document items, the reference match sets      *)
(* (Selectors!MatchSet) and the handler registration lists; no counters,   *)
(* no capture flags: scopes are recomputed from the open-element stack.    *)
(*                                                                         *)
(* doc    : items "st" | "et" (as in Selectors) | "tx" | "cm" | "dt"       *)
(* elemH  : sequence of [sel, el, tx, cm : BOOLEAN] (registration order)   *)
(* docH   : sequence of [dt, cm, tx, de : BOOLEAN]                         *)
(* A handler is named <<"e" | "d", registration index, kind>>.             *)
(***************************************************************************)
EXTENDS Naturals, Sequences, FiniteSets, Selectors

\* indices 1..n (registration order) satisfying P
Filter(n, P(_)) == SelectSeq([k \in 1..n |-> k], P)

\* elements closed by end tag item i: the popped part of the stack, innermost first is not required
Closed(doc, tr, i) ==
  LET stack == tr[i].anc IN
  IF ~HasOpen(doc, stack, doc[i].n) THEN {}
  ELSE LET rest == PopTo(doc, stack, doc[i].n) IN {stack[k] : k \in (Len(rest) + 1)..Len(stack)}

\* expected handler list for item i (a sequence of handler names), given the match sets ms[h] of each selector
ExpectedFor(doc, tr, ms, elemH, docH, i) ==
  LET t == doc[i]
      InScope(h) == \E k \in 1..Len(tr[i].anc) : tr[i].anc[k] \in ms[h]
      E(kind, P(_)) == LET idx == Filter(Len(elemH), P) IN [k \in 1..Len(idx) |-> <<"e", idx[k], kind>>]
      D(kind, P(_)) == LET idx == Filter(Len(docH), P) IN [k \in 1..Len(idx) |-> <<"d", idx[k], kind>>]
  IN CASE t.k = "st" -> E("el", LAMBDA h : elemH[h].el /\ i \in ms[h])
       [] t.k = "tx" -> E("tx", LAMBDA h : elemH[h].tx /\ InScope(h)) \o D("tx", LAMBDA j : docH[j].tx)
       [] t.k = "cm" -> E("cm", LAMBDA h : elemH[h].cm /\ InScope(h)) \o D("cm", LAMBDA j : docH[j].cm)
       [] t.k = "dt" -> D("dt", LAMBDA j : docH[j].dt)
       [] t.k = "et" -> <<>>      \* end-tag handlers: see EndTagBag
       [] t.k = "raw" -> <<>>     \* CDATA section markers: no token, no handler

\* end-tag handlers at end tag item i: one per (closed element, element handler that matched it), as a bag
\* (the order among handlers of different elements closed by one end tag is not constrained)
EndTagBag(doc, tr, ms, elemH, i) ==
  \* (an optional field et = FALSE says that this element handler registers no end-tag handler)
  UNION {{<<e, h>> : h \in {x \in 1..Len(elemH) : elemH[x].el /\ e \in ms[x] /\ ("et" \notin DOMAIN elemH[x] \/ elemH[x].et)}} : e \in Closed(doc, tr, i)}
=============================================================================
