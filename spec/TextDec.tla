------------------------------ MODULE TextDec ------------------------------
(***************************************************************************)
(* L2: the text path of the dispatcher for one text node (src/             *)
(* rewritable_units/text_decoder.rs, transform_stream/dispatcher.rs):      *)
(* the node arrives as text lexemes, one per write; the streaming decoder  *)
(* delivers the characters completed so far to the text handlers and keeps *)
(* the bytes of an incomplete trailing character; a chunk's source         *)
(* location covers every byte read since the last reported chunk; when a   *)
(* handler fails and graceful bail-out is on, the bail-out content and     *)
(* then the current lexeme are flushed raw.                                *)
(* The node is abstracted as a sequence of character lengths in bytes.     *)
(* Repaired = FALSE is the code as built; Repaired = TRUE adds the flush   *)
(* of the decoder's pending bytes (the repair sketched for finding S19).   *)
(***************************************************************************)
EXTENDS Naturals, Sequences, FiniteSets

CONSTANTS Nodes,      \* set of text nodes: sequences of character byte lengths (1..4)
          Repaired    \* BOOLEAN
VARIABLES node, pos,  \* bytes of the node written so far
          pend,       \* bytes held by the decoder (an incomplete trailing character)
          unrep,      \* bytes read but not yet covered by a reported source location
          sink,       \* what reached the sink: sequence of byte offsets (1-based) of the node, 0 = the bail-out content
          locs,       \* reported chunk locations <<start, len>>
          delivered,  \* number of characters delivered to the handlers
          phase,      \* "run" | "bailed" | "done"
          bpos        \* bytes written before the write whose handler failed
vars == <<node, pos, pend, unrep, sink, locs, delivered, phase, bpos>>

RECURSIVE Sum(_)
Sum(s) == IF s = <<>> THEN 0 ELSE Head(s) + Sum(Tail(s))
Total == Sum(node)
\* number of whole characters within the first b bytes, and the bytes they occupy
RECURSIVE Whole(_, _, _)
Whole(s, b, acc) == IF s = <<>> \/ Head(s) > b THEN acc ELSE Whole(Tail(s), b - Head(s), <<acc[1] + 1, acc[2] + Head(s)>>)
CharsIn(b) == Whole(node, b, <<0, 0>>)

Init == /\ node \in Nodes /\ pos = 0 /\ pend = 0 /\ unrep = 0 /\ sink = <<>> /\ locs = <<>> /\ delivered = 0 /\ phase = "run" /\ bpos = 0

Range(a, b) == [i \in 1..(b - a) |-> a + i]      \* offsets a+1 .. b

\* one write: k more bytes of the node (the last write of the node flushes the decoder)
Write(k, fail) ==
  /\ phase = "run" /\ k >= 1 /\ pos + k <= Total /\ UNCHANGED node
  /\ LET p2 == pos + k
         w == CharsIn(p2)                      \* characters complete after this write
         newChars == w[1] - delivered
         last == p2 = Total
         read == unrep + k                     \* bytes the reported location will cover
     IN IF newChars = 0 /\ ~last THEN
             \* nothing to deliver: the decoder keeps the bytes, no handler runs, the lexeme is committed
             /\ pos' = p2 /\ pend' = p2 - w[2] /\ unrep' = unrep + k
             /\ UNCHANGED <<sink, locs, delivered, phase, bpos>>
        ELSE IF fail THEN
             \* the handler fails on this chunk: bail-out content, then the raw flush from the start of the current lexeme
             /\ phase' = "bailed" /\ pos' = p2 /\ bpos' = pos
             /\ sink' = sink \o <<0>> \o (IF Repaired THEN Range(pos - pend, pos) ELSE <<>>) \o Range(pos, p2)
             /\ UNCHANGED <<pend, unrep, locs, delivered>>
        ELSE /\ pos' = p2 /\ delivered' = w[1] /\ pend' = p2 - w[2]
             \* the chunk is re-serialised: exactly the bytes of the delivered characters reach the sink
             /\ sink' = sink \o Range(CharsIn(pos)[2], w[2])
             /\ locs' = Append(locs, <<p2 - read, read>>) /\ unrep' = 0
             /\ phase' = (IF last THEN "done" ELSE "run") /\ UNCHANGED bpos
Next == \E k \in 1..4 : \E fail \in BOOLEAN : Write(k, fail)
Spec == Init /\ [][Next]_vars

\* ---- properties -----------------------------------------------------------------------------------------
\* without a failure the sink is the node, and the reported locations tile it
Identity == phase = "done" => sink = Range(0, Total)
Tiling == /\ \A i \in 1..Len(locs) : locs[i][1] = (IF i = 1 THEN 0 ELSE locs[i - 1][1] + locs[i - 1][2])
          /\ (phase = "done" => Sum([i \in 1..Len(locs) |-> locs[i][2]]) = Total)
\* graceful bail-out: the sink followed by the unwritten input is the input with the bail-out content somewhere
Lost == {b \in 1..pos : \A i \in 1..Len(sink) : sink[i] # b}
NoDup == \A i, j \in 1..Len(sink) : (i # j /\ sink[i] # 0) => sink[i] # sink[j]
InOrder == \A i, j \in 1..Len(sink) : (i < j /\ sink[i] # 0 /\ sink[j] # 0) => sink[i] < sink[j]
NoLoss == phase = "bailed" => Lost = {}
\* as built: whatever is lost is exactly the incomplete character the decoder held from earlier writes (S19)
LossIsS19 == phase = "bailed" => /\ Lost = {b \in 1..bpos : b > bpos - pend}
                                 /\ pend \in 0..3
                                 /\ pend = bpos - CharsIn(bpos)[2]
BailShape == phase = "bailed" => NoDup /\ InOrder
=============================================================================
