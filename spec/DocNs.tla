------------------------------- MODULE DocNs -------------------------------
(***************************************************************************)
(* Namespace of every start tag of a document given as a tag list, decided  *)
(* by the specification (TreeSim, the simulated tree-builder feedback) and  *)
(* not taken from lol-html's own report: ns = the simulator's namespace      *)
(* after the tag, which is what the selector machinery is handed (it only    *)
(* matters for "self-closing syntax closes a foreign element").              *)
(***************************************************************************)
EXTENDS Naturals, Sequences, TreeSim

RECURSIVE NsFold(_, _, _, _)
NsFold(doc, i, tb, acc) ==
  IF i > Len(doc) THEN acc
  ELSE LET t == doc[i] IN
       IF t.k = "st" THEN
            LET r == TSStart(tb, LowerS(t.n), [j \in 1..Len(t.attrs) |-> <<LowerS(t.attrs[j][1]), t.attrs[j][2]>>], t.sc)
            IN NsFold(doc, i + 1, r.tb, Append(acc, [t EXCEPT !.ns = Cur(r.tb)]))
       ELSE IF t.k = "et" THEN NsFold(doc, i + 1, TSEnd(tb, LowerS(t.n)).tb, Append(acc, t))
       ELSE NsFold(doc, i + 1, tb, Append(acc, t))
NsDoc(doc) == NsFold(doc, 1, TSInit(FALSE), <<>>)
\* a record with its document's namespaces recomputed
WithNs(r) == [r EXCEPT !.doc = NsDoc(r.doc)]
=============================================================================
