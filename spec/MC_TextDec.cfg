SPECIFICATION Spec
CONSTANTS
  Nodes <- NodeSet
  Repaired = FALSE
INVARIANT Identity
INVARIANT Tiling
INVARIANT LossIsS19
INVARIANT BailShape
CHECK_DEADLOCK FALSE
