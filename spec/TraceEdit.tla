---------------------------- MODULE TraceEdit ----------------------------
(***************************************************************************)
(* C07: the sink bytes of a real run with mutating handlers equal the      *)
(* output of the reference editor Edit!Expected applied to the same        *)
(* document and the operations the handlers were observed to perform.      *)
(* Record: [id, input, doc, toks, endops, obs : seq of [variant, res, sink]] *)
(***************************************************************************)
EXTENDS Naturals, Integers, Sequences, TLC, Json, IOUtils, Edit, DocNs

Rec == ndJsonDeserialize(IOEnv.TRACE)
VARIABLES l, nbad
vars == <<l, nbad>>

RECURSIVE FirstBad(_, _, _)
FirstBad(r, exp, i) ==
  IF i > Len(r.obs) THEN "ok"
  ELSE IF r.obs[i].res # "ok" THEN "C07: run failed: " \o r.obs[i].res
  ELSE IF r.obs[i].sink # exp THEN "C07: output differs from the documented edit of the token stream (" \o r.obs[i].variant \o ")"
  ELSE FirstBad(r, exp, i + 1)
Verdict(r) == LET v == FirstBad(r, Expected(r), 1) IN
  IF v = "ok" THEN v
  ELSE IF FirstBad(r, ExpectedM(r, "kf-S9"), 1) = "ok" THEN v \o " [explained-by:S9]"
  ELSE IF ImplicitCloseWithEdits(r) THEN v \o " [signature:S4-S10]"
  ELSE v

TInit == l = 1 /\ nbad = 0
TNext == /\ l <= Len(Rec)
         /\ LET v == Verdict(WithNs(Rec[l])) IN
            IF v = "ok" THEN UNCHANGED nbad ELSE PrintT(<<"BAD", Rec[l].id, 0, v>>) /\ nbad' = nbad + 1
         /\ l' = l + 1
TSpec == TInit /\ [][TNext]_vars
Accepted == PrintT(<<"TRACE-SUMMARY", Len(Rec), TLCGet("stats").diameter>>)
AtEnd == l = Len(Rec) + 1 => PrintT(<<"TRACE-END", l - 1, nbad>>)
=============================================================================
