----------------------------- MODULE MC_Threads -----------------------------
(* Bounded instance of ThreadsErr: exhaustive over all schedules of MaxLen operations of 2 threads; every   *)
(* complete schedule is printed as a REPLAY line and executed on real threads by the harness (spec -> impl). *)
EXTENDS ThreadsErr, TLC, Json
PrintSchedules == Len(hist) = MaxLen => PrintT(<<"REPLAY", ToJson(hist)>>)
=============================================================================
