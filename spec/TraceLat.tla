---------------------------- MODULE TraceLat ----------------------------
(***************************************************************************)
(* C09, low output latency.  Record (one chunked run of the real code plus *)
(* fresh single-write runs of each prefix, all real):                      *)
(*   [id, kind ("none" | "nomatch" | "observers"), texth, html, input,     *)
(*    cuts (cumulative bytes written after each write),                    *)
(*    emitted (cumulative sink bytes after each write),                    *)
(*    fresh   (sink bytes of a fresh rewriter given that prefix at once)]  *)
(* (i)  schedule independence: emitted[k] = fresh[k] (relation)            *)
(* (ii) absolute bound, from the reference tokenizer's state at the prefix *)
(***************************************************************************)
EXTENDS Naturals, Integers, Sequences, TLC, Json, IOUtils, Tok

Rec == ndJsonDeserialize(IOEnv.TRACE)
VARIABLES l, nbad
vars == <<l, nbad>>

LookAhead == 6      \* "a look-ahead of a few bytes"

PlainText == {"data", "rcdata", "rawtext", "scriptdata", "plaintext"}
InName == {"tagopen", "endtagopen", "tagname", "textlt", "textendtagopen", "textendtagname", "scriptesclt", "scriptdescstart"}
InTag == InName \cup {"beforeattrname", "attrname", "afterattrname", "beforeattrvalue", "attrvaluedq", "attrvaluesq",
                      "attrvalueunq", "afterattrvalueq", "selfclosing"}

\* length of the unfinished tag's "'<' through its name" part at the end of the prefix
NamePart(sm, n) ==
  IF sm.st \in InName THEN n - sm.tok.s
  ELSE IF sm.st \in InTag THEN sm.tok.nm[2] - sm.tok.s
  ELSE 0

Max(a, b) == IF a >= b THEN a ELSE b

\* In foreign content the tag scanner cannot decide some tags from the name alone (integration points, font,
\* names its hash cannot represent inside MathML: TreeSim!NeedsLexeme) and hands them to the lexer, which keeps the
\* whole unfinished tag.  That is the one designed exception to "through its name".
TagName(r, sm) == LowerSeq(SubSeq(r.input, sm.tok.nm[1] + 1, sm.tok.nm[2]))
WholeTagKept(r, sm) == sm.st \in (InTag \ InName) /\ NeedsLexeme(sm.tb, TagName(r, sm), sm.tok.k = "et")

\* no handlers: nothing held back after ordinary text / a complete token; else the start of one unfinished
\* tag or a few bytes of look-ahead
BoundNone(r, sm, n) == IF sm.st \in PlainText THEN 0
                       ELSE IF WholeTagKept(r, sm) THEN Max(n - sm.tok.s, LookAhead)
                       ELSE Max(NamePart(sm, n), LookAhead)

\* observers: at most the single unfinished token (plus an incomplete character when text is decoded)
\* (claimed for prefixes whose unfinished token is a tag, comment, doctype or plain text: inside escaped
\* script data and CDATA sections only the relational clause applies; -1 = no absolute bound)
Unclaimed == {"scriptescstart", "scriptescstartdash", "scriptesc", "scriptescdash", "scriptescdashdash",
              "scriptdesc", "scriptdescdash", "scriptdescdashdash", "scriptdesclt", "scriptdescend", "cdata"}
BoundObs(r, sm, n) ==
  IF sm.st \in PlainText THEN (IF r.texth THEN 3 ELSE 0)
  ELSE IF sm.st \in Unclaimed THEN -1
  ELSE IF sm.tok.k # "none" \/ sm.st \in InTag \cup {"markupdecl"} THEN Max(n - sm.tok.s, LookAhead)
  ELSE LookAhead + (IF r.texth THEN 3 ELSE 0)

RECURSIVE Check(_, _)
Check(r, k) ==
  IF k > Len(r.cuts) THEN "ok"
  ELSE LET n == r.cuts[k]  pending == n - r.emitted[k] IN
       IF r.emitted[k] # r.fresh[k] THEN "C09: bytes emitted after a write depend on earlier chunking"
       ELSE IF pending < 0 THEN "C09: more bytes emitted than written"
       ELSE IF r.kind = "none" /\ pending > BoundNone(r, AfterPrefix(SubSeq(r.input, 1, n), "sim", FALSE), n)
            THEN "C09: with no handlers more than an unfinished tag start / look-ahead is held back"
       ELSE IF r.kind = "observers"
               /\ LET b == BoundObs(r, AfterPrefix(SubSeq(r.input, 1, n), "sim", FALSE), n) IN b >= 0 /\ pending > b
            THEN "C09: with observers more than the single unfinished token is held back"
       ELSE Check(r, k + 1)

Verdict(r) == IF "failed" \in DOMAIN r THEN "C09: a write of an observer-only run failed: " \o r.failed ELSE Check(r, 1)

TInit == l = 1 /\ nbad = 0
TNext == /\ l <= Len(Rec)
         /\ LET v == Verdict(Rec[l]) IN
            IF v = "ok" THEN UNCHANGED nbad ELSE PrintT(<<"BAD", Rec[l].id, 0, v>>) /\ nbad' = nbad + 1
         /\ l' = l + 1
TSpec == TInit /\ [][TNext]_vars
Accepted == PrintT(<<"TRACE-SUMMARY", Len(Rec), TLCGet("stats").diameter>>)
AtEnd == l = Len(Rec) + 1 => PrintT(<<"TRACE-END", l - 1, nbad>>)
=============================================================================
