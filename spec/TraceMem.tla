---------------------------- MODULE TraceMem ----------------------------
(***************************************************************************)
(* C10, memory limit.  A record is a sweep: the same configuration, input  *)
(* and chunking run under ascending limits M (each limit possibly twice).  *)
(* Per call the harness logs bytes written / emitted so far, the number of *)
(* open elements the selector machinery must track (known by construction  *)
(* of the input), the accounted usage (hook) and the result.               *)
(*   [id, itemsize, sel (selectors registered), passthru,                  *)
(*    runs : seq of [max, res, out, calls : seq of [w, e, depth, usage, res]]] *)
(* Contract (L0, Memory):                                                  *)
(*   after every successful call  usage <= M                               *)
(*   the accounting covers what is demonstrably held:                      *)
(*        usage >= retained input + open elements * item size              *)
(*   (hence retained input + bookkeeping <= M)                             *)
(*   the call that exceeds the limit returns MemoryLimitExceeded (no panic)*)
(*   once a limit succeeds every larger limit succeeds with identical output*)
(*   equal limits behave identically (determinism)                         *)
(***************************************************************************)
EXTENDS Naturals, Integers, Sequences, TLC, Json, IOUtils

Rec == ndJsonDeserialize(IOEnv.TRACE)
VARIABLES l, nbad
vars == <<l, nbad>>

Retained(r, c) == IF r.passthru THEN c.w - c.e ELSE 0
Held(r, c) == Retained(r, c) + (IF r.sel THEN c.depth * r.itemsize ELSE 0)

CallVerdict(r, run, c) ==
  IF c.res = "panic" THEN "C10: panic instead of MemoryLimitExceeded"
  ELSE IF c.res \notin {"ok", "err:mem"} THEN "ok"     \* other failures are not this property's business
  ELSE IF c.res = "ok" /\ c.usage > run.max THEN "C10: accounted usage above the limit after a successful call"
  ELSE IF c.res = "ok" /\ r.passthru /\ Retained(r, c) > run.max THEN "C10: more than M bytes of unemitted input retained after a successful call"
  ELSE IF c.res = "ok" /\ c.usage < Held(r, c) THEN "C10: accounted usage is below what the rewriter demonstrably holds (retained input + open-element bookkeeping)"
  ELSE "ok"

RECURSIVE CallsBad(_, _, _)
CallsBad(r, run, i) == IF i > Len(run.calls) THEN "ok"
                       ELSE LET v == CallVerdict(r, run, run.calls[i]) IN IF v = "ok" THEN CallsBad(r, run, i + 1) ELSE v
RECURSIVE RunsBad(_, _)
RunsBad(r, i) == IF i > Len(r.runs) THEN "ok" ELSE LET v == CallsBad(r, r.runs[i], 1) IN IF v = "ok" THEN RunsBad(r, i + 1) ELSE v

Outcome(run) == <<run.res, run.out, [i \in 1..Len(run.calls) |-> run.calls[i].res]>>
Monotone(r) == \A i, j \in 1..Len(r.runs) : (i < j /\ r.runs[i].max <= r.runs[j].max /\ r.runs[i].res = "ok")
                  => (r.runs[j].res = "ok" /\ r.runs[j].out = r.runs[i].out)
Deterministic(r) == \A i, j \in 1..Len(r.runs) : r.runs[i].max = r.runs[j].max => Outcome(r.runs[i]) = Outcome(r.runs[j])
\* a failing run fails by the limit, not otherwise
FailKind(r) == \A i \in 1..Len(r.runs) : r.runs[i].res \in {"ok", "err:mem"}

\* unaccounted state: live heap of the process after the last write of a long stream in which nothing stays open or
\* buffered (runs that record nothing) may exceed the heap right after construction by M plus a fixed slack
HeapSlack == 65536
\* known finding S21: with an :nth-of-type selector registered the typed child counters keep one entry per distinct
\* element name among the children of an open element (here: the root), outside the limiter -- at most ~170 bytes each
HeapVerdict(h) ==
  IF h.res # "ok" THEN "C10: a stream that keeps nothing open or buffered failed under a 16 KiB limit: " \o h.res
  ELSE IF h.growth <= h.max + HeapSlack THEN "ok"
  ELSE "C10: the live heap of the rewriter grows with the length of the stream although the accounted usage stays within M"
       \o (IF h.nthoftype /\ h.growth <= h.names * 170 + h.max + HeapSlack THEN " [signature:S21]" ELSE "")

Verdict(r) ==
  IF "heap" \in DOMAIN r THEN HeapVerdict(r.heap) ELSE
  LET v == RunsBad(r, 1) IN
  IF v # "ok" THEN v
  ELSE IF ~FailKind(r) THEN "C10: a run under a memory limit failed with something other than MemoryLimitExceeded"
  ELSE IF ~Monotone(r) THEN "C10: a run succeeds under M but fails or differs under a larger limit"
  ELSE IF ~Deterministic(r) THEN "C10: two runs with the same limit, configuration and writes behave differently"
  ELSE "ok"

TInit == l = 1 /\ nbad = 0
TNext == /\ l <= Len(Rec)
         /\ LET v == Verdict(Rec[l]) IN
            IF v = "ok" THEN UNCHANGED nbad ELSE PrintT(<<"BAD", Rec[l].id, 0, v>>) /\ nbad' = nbad + 1
         /\ l' = l + 1
TSpec == TInit /\ [][TNext]_vars
Accepted == PrintT(<<"TRACE-SUMMARY", Len(Rec), TLCGet("stats").diameter>>)
AtEnd == l = Len(Rec) + 1 => PrintT(<<"TRACE-END", l - 1, nbad>>)
=============================================================================
