------------------------------- MODULE MC_Mode -------------------------------
(* Bounded instance of ModeSwitch: documents = sequences of fragments (tags of every feedback class, text,  *)
(* comments, CDATA) x capture policies (never lex, always lex, lex one tag, capture text inside an element). *)
EXTENDS ModeSwitch, TLC
F == <<
  <<120>>,                                   \* 1  x
  <<60,97,62>>, <<60,47,97,62>>,             \* 2 <a> 3 </a>
  <<60,98,62>>,                              \* 4 <b>
  <<60,116,105,116,108,101,62>>, <<60,47,116,105,116,108,101,62>>,     \* 5 <title> 6 </title>
  <<60,115,118,103,62>>, <<60,47,115,118,103,62>>,                   \* 7 <svg> 8 </svg>
  <<60,109,97,116,104,62>>, <<60,47,109,97,116,104,62>>,             \* 9 <math> 10 </math>
  <<60,109,105,62>>, <<60,47,109,105,62>>,                           \* 11 <mi> 12 </mi>
  <<60,120,45,121,62>>, <<60,47,120,45,121,62>>,                     \* 13 <x-y> 14 </x-y>
  <<60,102,111,110,116,32,99,111,108,111,114,61,114,62>>,            \* 15 <font color=r>
  <<60,102,111,110,116,62>>,                                         \* 16 <font>
  <<60,100,101,115,99,62>>, <<60,47,100,101,115,99,62>>,             \* 17 <desc> 18 </desc>
  <<60,33,91,67,68,65,84,65,91>>, <<93,93,62>>,                      \* 19 <![CDATA[ 20 ]]>
  <<60,33,45,45,99,45,45,62>>,                                       \* 21 <!--c-->
  <<60,115,99,114,105,112,116,62>>, <<60,47,115,99,114,105,112,116,62>>,  \* 22 <script> 23 </script>
  <<60,97,47,62>>,                                                   \* 24 <a/>
  <<60,97,110,110,111,116,97,116,105,111,110,45,120,109,108,32,101,110,99,111,100,105,110,103,61,116,101,120,116,47,104,116,109,108,62>>, \* 25 <annotation-xml encoding=text/html>
  <<60,47,97,110,110,111,116,97,116,105,111,110,45,120,109,108,62>>  \* 26 </annotation-xml>
>>
RECURSIVE Cat(_)
Cat(s) == IF s = <<>> THEN <<>> ELSE F[s[1]] \o Cat(Tail(s))
Idx == 1..Len(F)
Docs2 == {Cat(<<a, b>>) : a \in Idx, b \in Idx}
Docs3 == {Cat(<<a, b, c>>) : a \in Idx, b \in Idx, c \in Idx}
\* deeper situations: hashless end tag inside a MathML integration point followed by a start tag; CDATA inside a
\* matched foreign element; text-mode element inside an integration point; font with and without exit attributes
Extra == {Cat(<<9, 11, 13, 1, 14, 4, 1, 12, 10>>), Cat(<<9, 25, 13, 14, 2, 26, 11, 10>>), Cat(<<7, 2, 19, 1, 20, 3, 8, 2>>),
          Cat(<<7, 17, 5, 1, 6, 18, 19, 1, 20, 8>>), Cat(<<7, 15, 2, 1, 3>>), Cat(<<7, 16, 2, 19, 1, 20, 8>>),
          Cat(<<2, 22, 1, 4, 23, 3, 2>>), Cat(<<9, 11, 2, 12, 19, 1, 20, 10, 2>>), Cat(<<7, 24, 19, 4, 20, 8, 4>>)}
InputsQuick == Docs2 \cup Extra
InputsThorough == Docs2 \cup Docs3 \cup Extra
na == <<97>>  nb == <<98>>  nt == <<116,105,116,108,101>>  nm == <<109,105>>
Pols == {<<"none", <<>>>>, <<"all", <<>>>>, <<"tag", na>>, <<"tag", nb>>, <<"text-in", na>>, <<"text-in", nt>>, <<"text-in", nm>>, <<"tag", nm>>}
=============================================================================
