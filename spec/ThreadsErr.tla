----------------------------- MODULE ThreadsErr -----------------------------
(***************************************************************************)
(* L0 (C18, C API clause): the last-error slot is per thread.  A failing   *)
(* C call on thread t records its message in t's slot; take_last_error on  *)
(* t returns t's slot and clears it; no other thread's slot is read or     *)
(* written.  Ops: "failA" / "failB" (two different failing calls), "ok"    *)
(* (a succeeding call: leaves the slot alone), "take".                     *)
(***************************************************************************)
EXTENDS Naturals, Sequences

CONSTANTS Threads, MaxLen
VARIABLES lastErr, hist
vars == <<lastErr, hist>>

Ops == {"failA", "failB", "ok", "take"}
Init == lastErr = [t \in Threads |-> "null"] /\ hist = <<>>

\* result of the operation as the caller sees it
Result(t, op) == IF op = "take" THEN lastErr[t] ELSE IF op = "ok" THEN "0" ELSE "-1"
NextErr(t, op) == CASE op = "failA" -> "A" [] op = "failB" -> "B" [] op = "take" -> "null" [] op = "ok" -> lastErr[t]

Step(t, op) == /\ Len(hist) < MaxLen
               /\ hist' = Append(hist, [t |-> t, op |-> op, r |-> Result(t, op)])
               /\ lastErr' = [lastErr EXCEPT ![t] = NextErr(t, op)]
Next == \E t \in Threads : \E op \in Ops : Step(t, op)
Spec == Init /\ [][Next]_vars

\* isolation, stated on the history: what take returns on t depends on t's own earlier operations only
RECURSIVE LastOwn(_, _, _)
LastOwn(h, t, i) == IF i = 0 THEN "null"
                    ELSE IF h[i].t = t /\ h[i].op \in {"failA", "failB", "take"} THEN NextErr(t, h[i].op)
                    ELSE LastOwn(h, t, i - 1)
Isolation == \A i \in 1..Len(hist) : hist[i].op = "take" => hist[i].r = LastOwn(hist, hist[i].t, i - 1)
=============================================================================
