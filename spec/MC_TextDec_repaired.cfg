SPECIFICATION Spec
CONSTANTS
  Nodes <- NodeSet
  Repaired = TRUE
INVARIANT Identity
INVARIANT Tiling
INVARIANT NoLoss
INVARIANT BailShape
CHECK_DEADLOCK FALSE
