SPECIFICATION Spec
CONSTANTS
  Docs <- DocsThorough
  SelSets <- SelSetsThorough
INVARIANT NoPanic
INVARIANT Refines
INVARIANT StackIsOpenChain
INVARIANT ActiveHExact
INVARIANT OpenCountsExact
INVARIANT Emit
CHECK_DEADLOCK FALSE
