SPECIFICATION Spec
CONSTANTS
  Docs <- DocsThorough
  SelSets <- SelSetsThorough
INVARIANT NoPanic
INVARIANT Refines
INVARIANT StackIsOpenChain
INVARIANT ActiveHExact
INVARIANT OpenCountsExact
CHECK_DEADLOCK FALSE
