SPECIFICATION Spec
CONSTANTS
  Words <- WordSet
  MaxWords = 14
  Special <- SpecialSet
VIEW View
INVARIANT Emit
CHECK_DEADLOCK FALSE
