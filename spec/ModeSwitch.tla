----------------------------- MODULE ModeSwitch -----------------------------
(***************************************************************************)
(* L2: the parser's two interpreters of the one syntax table and the       *)
(* hand-over between them (src/parser/mod.rs, tag_scanner/, lexer/,        *)
(* state_machine/mod.rs bookmark, dispatcher hints).                       *)
(*                                                                         *)
(* Granularity: one step = one construct (text run, tag, comment, ...),    *)
(* found with the tokenizer table Tok from the current position in the     *)
(* current text mode.  What is explicit here is everything a mode switch   *)
(* touches:                                                                *)
(*  - the bookmark: {cdata_allowed, text type, last start tag name, pos,   *)
(*    feedback directive} is all that travels between the machines;        *)
(*  - the scanner asks the tree-builder simulator at the END OF THE TAG    *)
(*    NAME, the lexer when it emits the whole tag; a tag whose feedback     *)
(*    needs the attributes (font, annotation-xml, integration points) makes *)
(*    the scanner hand the tag to the lexer (RequestLexeme) with the        *)
(*    unhandled feedback; a hinted tag is re-lexed from its '<' with        *)
(*    feedback Skip / ApplyUnhandledFeedback(text type);                    *)
(*  - the dispatcher: a tag reaches selector matching exactly once, either  *)
(*    as a hint or as a lexeme (got_flags_from_hint);                       *)
(*  - scanner-private state that survives a switch (is_in_end_tag).         *)
(* The environment is the capture policy of the registered handlers.       *)
(* MC_Mode checks, for every document of a fragment alphabet and every      *)
(* policy, that what reaches matching and the handlers is exactly what the  *)
(* pure-lexer run (= Tok!Tokenize with the simulator) produces: handler     *)
(* independence (C06) at design level.                                      *)
(***************************************************************************)
EXTENDS Naturals, Integers, Sequences, SequencesExt, Tok

CONSTANTS Inputs, Policies     \* policies: <<"none", <<>>>> | <<"all", <<>>>> | <<"tag", name>> | <<"text-in", name>>
VARIABLES input, policy,
          dir,        \* "scan" | "lex"
          pos,        \* 0-based offset of the next unread byte
          ctx,        \* per machine ("lex", "scan"): [tt, cdata, last] -- each machine has its own copy; only the bookmark moves them
          fbdir,      \* feedback directive handed to the lexer: "none" | "skip" | "apply" (text type in fbtt) | "request"
          fbtt,
          tb,         \* the tree-builder simulator (shared ParserContext)
          hinted,     \* got_flags_from_hint
          scInEnd,    \* scanner-private is_in_end_tag (survives switches)
          inside,     \* nesting depth inside the policy's element (capture of text)
          matched,    \* tags that reached selector matching: <<kind, name>>
          delivered,  \* tokens handed to handlers: <<k, s, e>>
          done
vars == <<input, policy, dir, pos, ctx, fbdir, fbtt, tb, hinted, scInEnd, inside, matched, delivered, done>>

Ref(inp) == Tokenize(inp, "sim", FALSE)
tt == ctx[dir].tt
cdataOK == ctx[dir].cdata
last == ctx[dir].last
\* continue_from_bookmark: the receiving machine takes text type, cdata_allowed and last start tag name from the bookmark
Bookmark(from, to, c) == [ctx EXCEPT ![to] = c]
Same(c) == [ctx EXCEPT ![dir] = c]

\* the next construct from offset p in text mode t
FirstTok(p, t, lst, cd) ==
  LET r == TokenizeFrom(SubSeq(input, p + 1, Len(input)), "none", FALSE, t, lst, cd).toks IN
  IF r = <<>> THEN <<>> ELSE <<[r[1] EXCEPT !.s = @ + p, !.e = @ + p, !.nm = <<@[1] + p, @[2] + p>>,
                                          !.attrs = IF r[1].k = "dt" THEN @ ELSE [j \in 1..Len(@) |-> <<@[j][1] + p, @[j][2] + p, @[j][3] + p, @[j][4] + p>>]]>>
NameOf(t) == LowerSeq(SubSeq(input, t.nm[1] + 1, t.nm[2]))
AttrsOf(t) == [i \in 1..Len(t.attrs) |-> <<LowerSeq(SubSeq(input, t.attrs[i][1] + 1, t.attrs[i][2])), SubSeq(input, t.attrs[i][3] + 1, t.attrs[i][4])>>]

\* Hashable, NeedsLexeme: see TreeSim (shared with TraceLat)
\* capture policy: does the controller want lexemes after this tag / for this tag?
PolName == policy[2]
PolKind == policy[1]
WantsTag(n, isEnd) == PolKind = "all" \/ (PolKind = "tag" /\ ~isEnd /\ n = PolName)
InsideAfter(n, isEnd, sc) ==
  IF PolKind # "text-in" THEN 0
  ELSE IF ~isEnd /\ n = PolName THEN inside + 1
  ELSE IF isEnd /\ n = PolName /\ inside > 0 THEN inside - 1
  ELSE inside
\* directive after a tag has been handled
NextDir(n, isEnd, sc) == IF PolKind = "all" \/ InsideAfter(n, isEnd, sc) > 0 THEN "lex" ELSE "scan"
\* tokens a handler receives in lexing mode under this policy
Deliver(t) == \/ PolKind = "all"
              \/ (PolKind = "tag" /\ t.k = "st" /\ NameOf(t) = PolName)
              \/ (PolKind = "text-in" /\ t.k = "tx" /\ inside > 0)

Init == /\ input \in Inputs /\ policy \in Policies
        /\ dir = (IF policy[1] = "all" THEN "lex" ELSE "scan") /\ pos = 0
        /\ ctx = [d \in {"lex", "scan"} |-> [tt |-> "Data", cdata |-> FALSE, last |-> <<>>]]
        /\ fbdir = "none" /\ fbtt = "" /\ tb = TSInit(FALSE) /\ hinted = FALSE /\ scInEnd = FALSE /\ inside = 0
        /\ matched = <<>> /\ delivered = <<>> /\ done = FALSE

Finish == /\ ~done /\ FirstTok(pos, tt, last, cdataOK) = <<>> /\ done' = TRUE
          /\ UNCHANGED <<input, policy, dir, pos, ctx, fbdir, fbtt, tb, hinted, scInEnd, inside, matched, delivered>>

\* ---- the tag scanner ------------------------------------------------------------------------------------------
ScanStep ==
  /\ ~done /\ dir = "scan" /\ FirstTok(pos, tt, last, cdataOK) # <<>>
  /\ LET t == FirstTok(pos, tt, last, cdataOK)[1] IN
     IF t.k \notin {"st", "et"} THEN
          \* text, comments, doctype, CDATA markers: skipped without tokens (CDATA markers switch the text mode)
          /\ pos' = t.e
          /\ ctx' = Same([ctx[dir] EXCEPT !.tt = IF t.k = "raw" /\ tt # "CDataSection" /\ t.e - t.s = 9 /\ cdataOK THEN "CDataSection"
                                                 ELSE IF t.k = "raw" /\ tt = "CDataSection" THEN "Data" ELSE tt])
          /\ UNCHANGED <<input, policy, dir, fbdir, fbtt, tb, hinted, scInEnd, inside, matched, delivered, done>>
     ELSE
          \* finish_tag_name: scInEnd was set by create_end_tag (and is cleared here, before any early return)
          \* is_in_end_tag: set by create_end_tag, never cleared by create_start_tag, read and cleared here
          LET isEnd == t.k = "et" \/ scInEnd  n == NameOf(t) IN
          IF NeedsLexeme(tb, n, isEnd) THEN
               \* RequestLexeme: no hint; the lexer re-lexes the tag and applies the unhandled feedback
               /\ dir' = "lex" /\ fbdir' = "request" /\ hinted' = FALSE /\ scInEnd' = FALSE
               /\ ctx' = Bookmark("scan", "lex", ctx["scan"])
               /\ UNCHANGED <<input, policy, pos, fbtt, tb, inside, matched, delivered, done>>
          ELSE LET r == IF isEnd THEN TSEnd(tb, n) ELSE TSStart(tb, n, <<>>, FALSE)
                   m2 == Append(matched, <<t.k, n>>) IN
               IF WantsTag(n, isEnd) \/ NextDir(n, isEnd, FALSE) = "lex" THEN
                    \* hint answered "Lex": hand the tag over; the simulator has already been consulted
                    /\ dir' = "lex" /\ hinted' = TRUE /\ matched' = m2 /\ tb' = r.tb
                    /\ fbdir' = (IF r.tt # "" THEN "apply" ELSE "skip") /\ fbtt' = r.tt /\ scInEnd' = FALSE
                    /\ inside' = InsideAfter(n, isEnd, FALSE)
                    \* SetAllowCdata is applied by the scanner and travels in the bookmark
                    /\ LET c == [tt |-> tt, cdata |-> IF r.set THEN r.cdata ELSE cdataOK, last |-> IF isEnd THEN last ELSE n] IN
                       ctx' = [ctx EXCEPT !["scan"] = c, !["lex"] = c]
                    /\ UNCHANGED <<input, policy, pos, delivered, done>>
               ELSE \* keep scanning: the rest of the tag is skipped; emit_tag applies the pending text type
                    /\ pos' = t.e /\ matched' = m2 /\ tb' = r.tb
                    /\ ctx' = Same([tt |-> IF r.tt # "" THEN r.tt ELSE "Data", cdata |-> IF r.set THEN r.cdata ELSE cdataOK, last |-> IF isEnd THEN last ELSE n])
                    /\ inside' = InsideAfter(n, isEnd, FALSE) /\ scInEnd' = FALSE
                    /\ dir' = "scan"
                    /\ fbdir' = "none" /\ fbtt' = "" /\ hinted' = FALSE
                    /\ UNCHANGED <<input, policy, delivered, done>>

\* ---- the lexer ----------------------------------------------------------------------------------------------------
LexStep ==
  /\ ~done /\ dir = "lex" /\ FirstTok(pos, tt, last, cdataOK) # <<>>
  /\ LET t == FirstTok(pos, tt, last, cdataOK)[1] IN
     IF t.k \notin {"st", "et"} THEN
          /\ pos' = t.e
          /\ delivered' = IF t.k # "raw" /\ Deliver(t) THEN Append(delivered, <<t.k, t.s, t.e>>) ELSE delivered
          /\ ctx' = Same([ctx[dir] EXCEPT !.tt = IF t.k = "raw" /\ tt # "CDataSection" /\ t.e - t.s = 9 /\ cdataOK THEN "CDataSection"
                                                 ELSE IF t.k = "raw" /\ tt = "CDataSection" THEN "Data" ELSE tt])
          /\ UNCHANGED <<input, policy, dir, fbdir, fbtt, tb, hinted, scInEnd, inside, matched, done>>
     ELSE LET isEnd == t.k = "et"  n == NameOf(t)
              \* try_get_tree_builder_feedback: Skip / ApplyUnhandledFeedback / ask the simulator now
              r == CASE fbdir = "skip" -> [tb |-> tb, tt |-> "", cdata |-> cdataOK, set |-> FALSE, err |-> FALSE]
                     [] fbdir = "apply" -> [tb |-> tb, tt |-> fbtt, cdata |-> cdataOK, set |-> FALSE, err |-> FALSE]
                     [] OTHER -> IF isEnd THEN TSEnd(tb, n) ELSE TSStart(tb, n, AttrsOf(t), t.sc)
              m2 == IF hinted THEN matched ELSE Append(matched, <<t.k, n>>)     \* handle_tag: matching unless already hinted
              ins2 == IF hinted THEN inside ELSE InsideAfter(n, isEnd, FALSE)
              nd == IF PolKind = "all" \/ ins2 > 0 THEN "lex" ELSE "scan"
              c2 == [tt |-> IF r.tt # "" THEN r.tt ELSE "Data", cdata |-> IF r.set THEN r.cdata ELSE cdataOK, last |-> IF isEnd THEN last ELSE n]
          IN /\ pos' = t.e /\ tb' = r.tb
             \* lexer -> scanner hand-over at the end of the lexeme: the bookmark carries the lexer's context
             /\ ctx' = IF nd = "scan" THEN [ctx EXCEPT !["lex"] = c2, !["scan"] = c2] ELSE [ctx EXCEPT !["lex"] = c2]
             /\ matched' = m2 /\ hinted' = FALSE /\ fbdir' = "none" /\ fbtt' = ""
             /\ delivered' = IF Deliver(t) THEN Append(delivered, <<t.k, t.s, t.e>>) ELSE delivered
             /\ inside' = ins2
             /\ dir' = nd
             /\ UNCHANGED <<input, policy, scInEnd, done>>

Next == ScanStep \/ LexStep \/ Finish
Spec == Init /\ [][Next]_vars

\* ---- properties: handler independence ------------------------------------------------------------------------------------
RefTags(inp) == LET ts == SelectSeq(Ref(inp).toks, LAMBDA t : t.k \in {"st", "et"}) IN
                [i \in 1..Len(ts) |-> <<ts[i].k, LowerSeq(SubSeq(inp, ts[i].nm[1] + 1, ts[i].nm[2]))>>]
\* every tag reaches selector matching exactly once, in order, whatever the policy
MatchedAll == done => matched = RefTags(input)
\* a handler's tokens are the pure-lexer run's tokens (same kinds and extents), filtered by what it asked for
DeliveredFromRef == done =>
  LET ref == Ref(input).toks IN
  \A i \in 1..Len(delivered) : \E j \in 1..Len(ref) :
     ref[j].k = delivered[i][1] /\ ref[j].s <= delivered[i][2] /\ delivered[i][3] <= ref[j].e
     /\ (delivered[i][1] # "tx" => ref[j].s = delivered[i][2] /\ ref[j].e = delivered[i][3])
\* with the capture-everything policy the stream is the reference stream
AllIsRef == done /\ PolKind = "all" =>
  [i \in 1..Len(delivered) |-> delivered[i]] =
  LET ref == SelectSeq(Ref(input).toks, LAMBDA t : t.k # "raw") IN [i \in 1..Len(ref) |-> <<ref[i].k, ref[i].s, ref[i].e>>]
\* text mode, CDATA permission and namespace stack at the end do not depend on the policy
FinalCtx == done => LET r == Ref(input) IN tb.ns = r.tb.ns /\ ctx[dir].cdata = r.cdataOK
=============================================================================
