------------------------------ MODULE MC_Stream ------------------------------
(* Bounded instances of Stream.tla: every chunking of the document, a failure at every handler invocation *)
(* index, every limit M, all four flag combinations, 0 or 2 bail-out handlers.                             *)
EXTENDS Stream, Json
\* concrete renderings used by the replay: text = letters, open = "<a>", close = "</a>", other = "<br>"
DocA == << [len |-> 2, kind |-> "text"], [len |-> 3, kind |-> "open"], [len |-> 1, kind |-> "text"], [len |-> 4, kind |-> "close"], [len |-> 4, kind |-> "other"] >>
DocB == << [len |-> 3, kind |-> "open"], [len |-> 3, kind |-> "open"], [len |-> 2, kind |-> "text"], [len |-> 4, kind |-> "other"], [len |-> 3, kind |-> "open"], [len |-> 3, kind |-> "text"] >>
\* the real constants of the build (item size 104, minimum growth 8 items): limits around the real thresholds
LimitsReal == {-1, 0, 1, 2, 3, 4, 6, 9, 12, 831, 832, 833, 835, 840, 845}
\* every finished behaviour (one per distinct final state under VIEW) is printed for replay in the real code
PrintBehaviour == phase \in {"ended", "poked"} =>
  PrintT(<<"REPLAY", ToJson([doc |-> Doc, cuts |-> cuts, max |-> M, failAt |-> failAt, gmem |-> GMem, ghandler |-> GHandler, nbail |-> NBail,
                              prealloc |-> Prealloc, res |-> mon.res, outLen |-> Len(mon.out), phase |-> phase])>>)
LimitsA == {-1} \cup 0..14
LimitsB == {-1} \cup 0..26
=============================================================================
