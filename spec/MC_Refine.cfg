SPECIFICATION Spec
CONSTANTS
  Inputs <- InputsQuick
INVARIANT Refines
INVARIANT RefinesParts
INVARIANT Tiling
INVARIANT LowLatency
CHECK_DEADLOCK FALSE
