----------------------------- MODULE Mutations -----------------------------
(***************************************************************************)
(* L2: how element operations are stored and serialised (src/rewritable_   *)
(* units/element.rs, mutations.rs, tokens/): every token carries           *)
(* Mutations = (content_before, replacement, content_after, removed); an   *)
(* element writes into its start tag's mutations and into a separate       *)
(* end_tag_mutations object that an end-tag handler later ASSIGNS to the    *)
(* end tag token that closes the element; remove_content() clears the      *)
(* inner insertions made so far and makes the dispatcher drop the content.  *)
(* A token is serialised as content_before, (replacement | itself),        *)
(* content_after.                                                           *)
(* MC_Mutations runs every short script of operations on the elements of    *)
(* three tiny documents and compares with the reference editor Edit (L0):  *)
(* equal under the model of known finding S9, and for the element closed    *)
(* by its ancestor's end tag equal unless Edit!ImplicitCloseWithEdits (the  *)
(* signature of S4/S10) holds -- the two findings at design level.          *)
(***************************************************************************)
EXTENDS Naturals, Sequences, TLC, Edit

CONSTANTS Cases     \* set of [doc (name), opsA, opsB] ; opsB only used by the nested document
VARIABLES case
vars == <<case>>

\* ---- the code's data structures -----------------------------------------------------------------------
M0 == [cb |-> <<>>, rep |-> <<>>, ca |-> <<>>, removed |-> FALSE]
El0 == [st |-> M0, et |-> M0, hasEt |-> FALSE, rc |-> FALSE]      \* rc = should_remove_content
RemoveContent(e) == [e EXCEPT !.st.ca = <<>>, !.et.cb = IF e.hasEt THEN <<>> ELSE @, !.rc = TRUE]
P(op) == Piece(op)
Apply(e, op, chc) ==
  CASE op.op = "before"      -> [e EXCEPT !.st.cb = Append(@, P(op))]
    [] op.op = "after"       -> IF chc THEN [e EXCEPT !.et.ca = <<P(op)>> \o @, !.hasEt = TRUE] ELSE [e EXCEPT !.st.ca = <<P(op)>> \o @]
    [] op.op = "prepend"     -> IF chc THEN [e EXCEPT !.st.ca = <<P(op)>> \o @] ELSE e
    [] op.op = "append"      -> IF chc THEN [e EXCEPT !.et.cb = Append(@, P(op)), !.hasEt = TRUE] ELSE e
    [] op.op = "set_inner"   -> IF chc THEN [RemoveContent(e) EXCEPT !.st.ca = <<P(op)>>] ELSE e
    [] op.op = "replace"     -> LET e1 == [e EXCEPT !.st.removed = TRUE, !.st.rep = <<P(op)>>] IN
                                IF chc THEN [RemoveContent(e1) EXCEPT !.et.removed = TRUE, !.hasEt = TRUE] ELSE e1
    [] op.op = "remove"      -> LET e1 == [e EXCEPT !.st.removed = TRUE] IN
                                IF chc THEN [RemoveContent(e1) EXCEPT !.et.removed = TRUE, !.hasEt = TRUE] ELSE e1
    [] op.op = "remove_keep" -> LET e1 == [e EXCEPT !.st.removed = TRUE] IN
                                IF chc THEN [e1 EXCEPT !.et.removed = TRUE, !.hasEt = TRUE] ELSE e1
RECURSIVE Fold(_, _, _, _)
Fold(e, ops, i, chc) == IF i > Len(ops) THEN e ELSE Fold(Apply(e, ops[i], chc), ops, i + 1, chc)
Ser(m, raw) == Cat(m.cb) \o (IF m.removed THEN Cat(m.rep) ELSE raw) \o Cat(m.ca)

\* ---- the three documents ------------------------------------------------------------------------------------
b(s) == CASE s = "<a>" -> <<60, 97, 62>> [] s = "</a>" -> <<60, 47, 97, 62>> [] s = "<b>" -> <<60, 98, 62>> [] s = "<br>" -> <<60, 98, 114, 62>>
          [] s = "xy" -> <<120, 121>> [] s = "z" -> <<122>>
St(n) == [k |-> "st", n |-> n, attrs |-> <<>>, sc |-> FALSE, ns |-> "html"]
\* own: <a>xy</a>     void: <br>z     nested: <a><b>xy</a>
Own(opsA) ==
  LET a == Fold(El0, opsA, 1, TRUE) IN
  Ser(a.st, b("<a>")) \o (IF a.rc THEN <<>> ELSE b("xy")) \o Ser(IF a.hasEt THEN a.et ELSE M0, b("</a>"))
Void(opsA) ==
  LET a == Fold(El0, opsA, 1, FALSE) IN Ser(a.st, b("<br>")) \o b("z")
\* the end-tag handlers of b (inner, runs first) and of a assign their end_tag_mutations to the one end tag </a>
Nested(opsA, opsB) ==
  LET a == Fold(El0, opsA, 1, TRUE)  bb == Fold(El0, opsB, 1, TRUE)
      m1 == IF bb.hasEt THEN bb.et ELSE M0
      m2 == IF a.hasEt THEN a.et ELSE m1
      inner == IF a.rc THEN <<>> ELSE Ser(bb.st, b("<b>")) \o (IF bb.rc THEN <<>> ELSE b("xy"))
  IN Ser(a.st, b("<a>")) \o inner \o Ser(m2, b("</a>"))
Out(c) == CASE c.doc = "own" -> Own(c.opsA) [] c.doc = "void" -> Void(c.opsA) [] c.doc = "nested" -> Nested(c.opsA, c.opsB)

\* ---- the same cases for the reference editor ------------------------------------------------------------
Rec(c) ==
  CASE c.doc = "own" ->
         [input |-> b("<a>") \o b("xy") \o b("</a>"), doc |-> <<St(<<97>>), [k |-> "tx"], [k |-> "et", n |-> <<97>>]>>,
          toks |-> <<[item |-> 1, s |-> 0, e |-> 3, ops |-> c.opsA], [item |-> 3, s |-> 5, e |-> 9, ops |-> <<>>]>>, endops |-> <<>>]
    [] c.doc = "void" ->
         [input |-> b("<br>") \o b("z"), doc |-> <<St(<<98, 114>>), [k |-> "tx"]>>,
          toks |-> <<[item |-> 1, s |-> 0, e |-> 4, ops |-> c.opsA]>>, endops |-> <<>>]
    [] c.doc = "nested" ->
         [input |-> b("<a>") \o b("<b>") \o b("xy") \o b("</a>"), doc |-> <<St(<<97>>), St(<<98>>), [k |-> "tx"], [k |-> "et", n |-> <<97>>]>>,
          toks |-> <<[item |-> 1, s |-> 0, e |-> 3, ops |-> c.opsA], [item |-> 2, s |-> 3, e |-> 6, ops |-> c.opsB], [item |-> 4, s |-> 8, e |-> 12, ops |-> <<>>]>>,
          endops |-> <<>>]

Init == case \in Cases
Spec == Init /\ [][FALSE]_vars

\* what the data structures serialise is the documented edit -- up to the two known findings
Agrees == LET r == Rec(case) IN
          \/ Out(case) = ExpectedM(r, "kf-S9")
          \/ (case.doc = "nested" /\ ImplicitCloseWithEdits(r))
\* and without the operations that trigger S9 (insertions into an element after removing / replacing it) it is
\* the documented semantics itself
S9Free(ops) == \A i, j \in 1..Len(ops) : (i < j /\ ops[i].op \in {"remove", "replace"}) => ops[j].op \notin {"prepend", "append", "set_inner"}
AgreesDoc == LET r == Rec(case) IN
             (S9Free(case.opsA) /\ S9Free(case.opsB) /\ ~(case.doc = "nested" /\ ImplicitCloseWithEdits(r))) => Out(case) = ExpectedM(r, "doc")
\* the nested document does reproduce S4/S10: some script makes the two differ (checked by its negation failing)
NeverDiffers == Out(case) = ExpectedM(Rec(case), "kf-S9")
=============================================================================
