SPECIFICATION Spec
CONSTANTS
  Threads = {1, 2}
  MaxLen = 4
INVARIANT Isolation
INVARIANT PrintSchedules
CHECK_DEADLOCK FALSE
