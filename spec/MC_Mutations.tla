----------------------------- MODULE MC_Mutations -----------------------------
EXTENDS Mutations
C(name, mark) == [op |-> name, c |-> <<91, mark, 93>>, html |-> TRUE]
OpSet == { C("before", 49), C("after", 50), C("prepend", 51), C("append", 52), C("set_inner", 53), C("replace", 54),
           [op |-> "remove"], [op |-> "remove_keep"], C("before", 55), C("after", 56), C("append", 57), C("prepend", 48) }
RECURSIVE SeqsUpTo(_, _)
SeqsUpTo(T, n) == IF n = 0 THEN {<<>>} ELSE LET s == SeqsUpTo(T, n - 1) IN s \cup {Append(x, t) : x \in {y \in s : Len(y) = n - 1}, t \in T}
Scripts3 == SeqsUpTo(OpSet, 3)
Scripts2 == SeqsUpTo(OpSet, 2)
CaseSet == {[doc |-> "own", opsA |-> s, opsB |-> <<>>] : s \in Scripts3}
           \cup {[doc |-> "void", opsA |-> s, opsB |-> <<>>] : s \in Scripts3}
           \cup {[doc |-> "nested", opsA |-> s, opsB |-> t] : s \in Scripts2, t \in Scripts2}
=============================================================================
