------------------------------ MODULE TreeSim ------------------------------
(***************************************************************************)
(* L1: lol-html's *simulated* tree-construction feedback, as designed      *)
(* (src/parser/tree_builder_simulator): text type by tag name, a namespace *)
(* stack for svg / math with integration points, and the strict-mode       *)
(* ambiguity guard.  Names are lower-case byte sequences; the 64-bit name  *)
(* hash of the implementation is abstracted as the name itself.            *)
(*   TSInit(strict)                 initial state                          *)
(*   TSStart(tb, name, attrs, sc)   feedback for a start tag               *)
(*   TSEnd(tb, name)                feedback for an end tag                *)
(* both return [tb, tt (text type to switch to, "" = none), cdata, set,    *)
(* err]; set = the feedback is SetAllowCdata(cdata) (the parser keeps its  *)
(* own flag otherwise).                                                    *)
(***************************************************************************)
EXTENDS Naturals, Sequences, Names

TSInit(strict) == [ns |-> <<"html">>, guard |-> "default", depth |-> 0, strict |-> strict]

Cur(tb) == tb.ns[Len(tb.ns)]
LowerB(c) == IF c >= 65 /\ c <= 90 THEN c + 32 ELSE c
LowerS(s) == [i \in 1..Len(s) |-> LowerB(s[i])]

TextSwitching == {n_textarea, n_title, n_plaintext, n_script, n_style, n_iframe, n_xmp, n_noembed, n_noframes, n_noscript}

TextTypeFor(n) ==
  IF n \in {n_textarea, n_title} THEN "RCData"
  ELSE IF n = n_plaintext THEN "PlainText"
  ELSE IF n = n_script THEN "ScriptData"
  ELSE IF n \in {n_style, n_iframe, n_xmp, n_noembed, n_noframes, n_noscript} THEN "RawText"
  ELSE ""

ForeignExit == {n_b, n_big, n_blockquote, n_body, n_br, n_center, n_code, n_dd, n_div, n_dl, n_dt, n_em, n_embed,
                n_h1, n_h2, n_h3, n_h4, n_h5, n_h6, n_head, n_hr, n_i, n_img, n_li, n_listing, n_menu, n_meta,
                n_nobr, n_ol, n_p, n_pre, n_ruby, n_s, n_small, n_span, n_strong, n_strike, n_sub, n_sup,
                n_table, n_tt, n_u, n_ul, n_var}
MathTextIP == {n_mi, n_mo, n_mn, n_ms, n_mtext}
SvgHtmlIP  == {n_desc, n_title, n_foreignobject}

\* ---- ambiguity guard (strict mode) ------------------------------------------------------
\* returns [guard, depth, err]
GuardStart(tb, n) ==
  LET g == tb.guard  amb == n \in TextSwitching IN
  CASE g = "default" ->
         [guard |-> IF n = n_select THEN "inselect" ELSE IF n = n_frameset THEN "frameset" ELSE g, depth |-> 0, err |-> FALSE]
    [] g = "inselect" ->
         IF n \in {n_select, n_textarea, n_input, n_keygen} THEN [guard |-> "default", depth |-> 0, err |-> FALSE]
         ELSE IF n = n_template THEN [guard |-> "intemplate", depth |-> 1, err |-> FALSE]
         ELSE [guard |-> g, depth |-> 0, err |-> n # n_script /\ amb]
    [] g = "intemplate" ->
         IF n = n_template THEN [guard |-> g, depth |-> tb.depth + 1, err |-> FALSE]
         ELSE [guard |-> g, depth |-> tb.depth, err |-> amb]
    [] g = "frameset" ->
         [guard |-> g, depth |-> 0, err |-> n # n_noframes /\ amb]

GuardEnd(tb, n) ==
  IF tb.guard = "inselect" /\ n = n_select THEN [tb EXCEPT !.guard = "default"]
  ELSE IF tb.guard = "intemplate" /\ n = n_template THEN
       (IF tb.depth = 1 THEN [tb EXCEPT !.guard = "inselect", !.depth = 0] ELSE [tb EXCEPT !.depth = @ - 1])
  ELSE tb

\* ---- namespace stack -----------------------------------------------------------------------
Enter(tb, ns) == LET t == [tb EXCEPT !.ns = Append(@, ns)] IN [tb |-> t, tt |-> "", cdata |-> ns # "html", set |-> TRUE, err |-> FALSE]
Leave(tb) ==
  IF Len(tb.ns) <= 1 THEN [tb |-> tb, tt |-> "", cdata |-> Cur(tb) # "html", set |-> FALSE, err |-> FALSE]
  ELSE LET t == [tb EXCEPT !.ns = SubSeq(@, 1, Len(@) - 1)] IN [tb |-> t, tt |-> "", cdata |-> Cur(t) # "html", set |-> TRUE, err |-> FALSE]
Keep(tb, tt) == [tb |-> tb, tt |-> tt, cdata |-> Cur(tb) # "html", set |-> FALSE, err |-> FALSE]

HasAttrNamed(attrs, names) == \E i \in 1..Len(attrs) : attrs[i][1] \in names
HtmlEncoding(attrs) == \E i \in 1..Len(attrs) :
   attrs[i][1] = n_encoding /\ LowerS(attrs[i][2]) \in {n_text_html, n_application_xhtml_xml}

ForeignStart(tb, n, attrs, sc) ==
  IF n \in ForeignExit THEN Leave(tb)
  ELSE IF (Cur(tb) = "svg" /\ n \in SvgHtmlIP) \/ (Cur(tb) = "mathml" /\ n \in MathTextIP) THEN
       (IF sc THEN Keep(tb, "") ELSE Enter(tb, "html"))
  ELSE IF n = n_font THEN (IF HasAttrNamed(attrs, {n_color, n_size, n_face}) THEN Leave(tb) ELSE Keep(tb, ""))
  ELSE IF n = n_annotation_xml /\ Cur(tb) = "mathml" THEN
       (IF ~sc /\ HtmlEncoding(attrs) THEN Enter(tb, "html") ELSE Keep(tb, ""))
  ELSE Keep(tb, "")

TSStart(tb, n, attrs, sc) ==
  LET g  == IF tb.strict THEN GuardStart(tb, n) ELSE [guard |-> tb.guard, depth |-> tb.depth, err |-> FALSE]
      t  == [tb EXCEPT !.guard = g.guard, !.depth = g.depth]
  IN IF g.err THEN [tb |-> t, tt |-> "", cdata |-> Cur(t) # "html", set |-> FALSE, err |-> TRUE]
     \* (a self-closing <svg/> or <math/> is popped right away: the namespace is not entered)
     ELSE IF n = n_svg THEN (IF sc THEN Keep(t, "") ELSE Enter(t, "svg"))
     ELSE IF n = n_math THEN (IF sc THEN Keep(t, "") ELSE Enter(t, "mathml"))
     ELSE IF Cur(t) # "html" THEN ForeignStart(t, n, attrs, sc)
     ELSE Keep(t, TextTypeFor(n))

TSEnd(tb, n) ==
  LET t == IF tb.strict THEN GuardEnd(tb, n) ELSE tb IN
  IF Cur(t) = "html" THEN
       (IF Len(t.ns) < 2 THEN Keep(t, "")
        ELSE LET prev == t.ns[Len(t.ns) - 1] IN
             IF (prev = "mathml" /\ n \in MathTextIP) \/ (prev = "svg" /\ n \in SvgHtmlIP) THEN Leave(t)
             ELSE IF n = n_annotation_xml /\ prev = "mathml" THEN Leave(t)
             ELSE Keep(t, ""))
  ELSE IF (Cur(t) = "svg" /\ n = n_svg) \/ (Cur(t) = "mathml" /\ n = n_math) \/ n \in {n_p, n_br} THEN Leave(t)
  ELSE Keep(t, "")

\* ---- what the tag scanner can decide from the tag name alone ---------------------------------
\* the 64-bit tag-name hash (5 bits per character) represents names over a-z, 1-6 of up to 12 characters, and of 13
\* characters when the first one is a-j (its code's top bit is 0, so the shift loses nothing)
Hashable(n) == /\ \A i \in 1..Len(n) : (n[i] >= 97 /\ n[i] <= 122) \/ (n[i] >= 49 /\ n[i] <= 54)
               /\ (Len(n) <= 12 \/ (Len(n) = 13 /\ n[1] >= 97 /\ n[1] <= 106))
\* the simulator cannot answer from the name alone
NeedsLexeme(sim, n, isEnd) ==
  IF isEnd THEN Cur(sim) = "html" /\ Len(sim.ns) >= 2 /\ sim.ns[Len(sim.ns) - 1] = "mathml" /\ ~Hashable(n)
  ELSE \/ n = n_svg \/ n = n_math        \* the self-closing flag decides whether the namespace is entered
       \/ /\ Cur(sim) # "html" /\ n \notin ForeignExit
          /\ \/ (Cur(sim) = "svg" /\ n \in SvgHtmlIP) \/ (Cur(sim) = "mathml" /\ n \in MathTextIP)
             \/ n = n_font
             \/ (~Hashable(n) /\ Cur(sim) = "mathml")

=============================================================================
