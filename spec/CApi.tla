------------------------------- MODULE CApi -------------------------------
(***************************************************************************)
(* L0 (C17): the object lifecycle and the return-code / last-error         *)
(* contract of the C API, as lol_html.h documents it, written as a monitor *)
(* over the calls a client makes.  Objects: one builder, its selectors,    *)
(* one rewriter, library-allocated strings, client user data, streaming    *)
(* handlers.  Events [op, r (result as text), ...]:                        *)
(*  builder_new, selector_parse, add_element_content_handlers,             *)
(*  add_document_content_handlers, rewriter_build, builder_free,           *)
(*  selector_free, rewriter_write, rewriter_end, rewriter_free,            *)
(*  take_last_error (r = "msg" | "null"), stream_new, stream_drop,         *)
(*  strcheck (obtained, freed), leakcheck (live)                           *)
(***************************************************************************)
EXTENDS Naturals, Sequences

Init == [builder |-> "none", sels |-> 0, selsFreed |-> 0, rw |-> "none", err |-> FALSE,
         streams |-> 0, drops |-> 0, ok |-> TRUE, why |-> ""]
Bad(m, w) == [m EXCEPT !.ok = FALSE, !.why = w]

Step(m, e) ==
  CASE e.op = "builder_new" -> IF e.r = "ptr" /\ m.builder = "none" THEN [m EXCEPT !.builder = "live"] ELSE Bad(m, "builder_new")
    [] e.op = "selector_parse" ->
         IF e.r = "ptr" THEN [m EXCEPT !.sels = @ + 1]
         ELSE [m EXCEPT !.err = TRUE]                       \* failure: NULL and a last-error message
    \* a failing parse whose error the client does not take (the slot keeps it until the next failure overwrites it)
    [] e.op = "selector_parse_untaken" -> IF e.r = "ptr" THEN m ELSE [m EXCEPT !.err = TRUE]
    [] e.op = "add_element_content_handlers" ->
         IF m.builder # "live" THEN Bad(m, "handlers added to a builder that is not live")
         ELSE IF e.r = "0" THEN m ELSE [m EXCEPT !.err = TRUE]
    [] e.op = "add_document_content_handlers" -> IF m.builder = "live" THEN m ELSE Bad(m, "handlers added to a builder that is not live")
    [] e.op = "rewriter_build" ->
         IF m.builder # "live" THEN Bad(m, "build from a builder that is not live")
         ELSE IF e.r = "ptr" THEN [m EXCEPT !.rw = "live"] ELSE [m EXCEPT !.err = TRUE]
    \* "builder can be freed before any rewriters constructed from it"
    [] e.op = "builder_free" -> IF m.builder = "live" THEN [m EXCEPT !.builder = "freed"] ELSE Bad(m, "builder freed twice or never created")
    \* "Deallocate all dependant rewriter builders first and then use lol_html_selector_free"
    [] e.op = "selector_free" ->
         IF m.builder = "live" THEN Bad(m, "selector freed while its builder is alive")
         ELSE IF m.selsFreed >= m.sels THEN Bad(m, "selector freed twice")
         ELSE [m EXCEPT !.selsFreed = @ + 1]
    [] e.op = "rewriter_write" ->
         IF m.rw # "live" THEN Bad(m, "write on a rewriter that is not usable")
         ELSE IF e.r = "0" THEN m ELSE IF e.r = "-1" THEN [m EXCEPT !.rw = "failed", !.err = TRUE] ELSE Bad(m, "write returned neither 0 nor -1")
    [] e.op = "rewriter_end" ->
         IF m.rw # "live" THEN Bad(m, "end on a rewriter that is not usable")
         ELSE IF e.r = "0" THEN [m EXCEPT !.rw = "ended"] ELSE IF e.r = "-1" THEN [m EXCEPT !.rw = "failed", !.err = TRUE] ELSE Bad(m, "end returned neither 0 nor -1")
    [] e.op = "rewriter_free" -> IF m.rw \in {"live", "ended", "failed"} THEN [m EXCEPT !.rw = "freed"] ELSE Bad(m, "rewriter freed twice or never built")
    \* failures surface as -1 / NULL plus a message on the calling thread; taking it clears it
    [] e.op = "take_last_error" ->
         IF e.r = "msg" THEN (IF m.err THEN [m EXCEPT !.err = FALSE] ELSE Bad(m, "a last-error message without a failed call"))
         ELSE (IF m.err THEN Bad(m, "a failed call left no last-error message") ELSE m)
    [] e.op = "handler_error" -> [m EXCEPT !.err = TRUE]   \* a validating setter failed inside a handler (-1)
    [] e.op = "stream_new" -> [m EXCEPT !.streams = @ + 1]
    [] e.op = "stream_drop" -> IF m.drops < m.streams THEN [m EXCEPT !.drops = @ + 1] ELSE Bad(m, "drop_callback of a streaming handler ran more than once")
    [] e.op = "strcheck" -> IF e.obtained = e.freed THEN m ELSE Bad(m, "a library-allocated string was not freed exactly once")
    [] e.op = "leakcheck" ->
         IF e.live # 0 THEN Bad(m, "client user data still live at the end")
         ELSE IF m.drops # m.streams THEN Bad(m, "a streaming handler was never dropped")
         ELSE IF m.rw \in {"live", "ended", "failed"} THEN Bad(m, "rewriter never freed")
         ELSE IF m.builder = "live" THEN Bad(m, "builder never freed")
         ELSE IF m.selsFreed # m.sels THEN Bad(m, "a selector was never freed")
         ELSE m
    \* failures are reported through return codes and the last-error string, never by aborting the process
    [] e.op = "process_died" -> Bad(m, "the process aborted / crashed while executing a permitted C API history")
    [] OTHER -> m
=============================================================================
