---------------------------- MODULE TraceThreads ----------------------------
(***************************************************************************)
(* Trace validation of schedules executed on real threads through the real *)
(* extern "C" entry points against ThreadsErr: one TLC state per event;    *)
(* the slot state lastErr evolves as the specification says and every      *)
(* observed result must be the one the specification computes.             *)
(* Record: [id, evs : seq of [t, op, r]] (r: "null" | "A" | "B" | "0" | "-1") *)
(***************************************************************************)
EXTENDS Naturals, Sequences, TLC, Json, IOUtils

Rec == ndJsonDeserialize(IOEnv.TRACE)
VARIABLES l, k, lastErr, nbad
vars == <<l, k, lastErr, nbad>>

T == INSTANCE ThreadsErr WITH Threads <- 1..8, MaxLen <- 1000, hist <- <<>>

TInit == l = 1 /\ k = 1 /\ lastErr = [t \in 1..8 |-> "null"] /\ nbad = 0
Consume ==
  /\ l <= Len(Rec) /\ k <= Len(Rec[l].evs)
  /\ LET e == Rec[l].evs[k] IN
     IF e.r = T!Result(e.t, e.op)
     THEN /\ lastErr' = [lastErr EXCEPT ![e.t] = T!NextErr(e.t, e.op)] /\ k' = k + 1 /\ UNCHANGED <<l, nbad>>
     ELSE /\ PrintT(<<"BAD", Rec[l].id, k, "C18: the last-error slot of a thread was read or changed by another thread (or a failure was not recorded)">>)
          /\ nbad' = nbad + 1 /\ l' = l + 1 /\ k' = 1 /\ lastErr' = [t \in 1..8 |-> "null"]
Finish == /\ l <= Len(Rec) /\ k = Len(Rec[l].evs) + 1
          /\ l' = l + 1 /\ k' = 1 /\ lastErr' = [t \in 1..8 |-> "null"] /\ UNCHANGED nbad
TNext == Consume \/ Finish
TSpec == TInit /\ [][TNext]_vars
Accepted == PrintT(<<"TRACE-SUMMARY", Len(Rec), TLCGet("stats").diameter>>)
AtEnd == l = Len(Rec) + 1 => PrintT(<<"TRACE-END", l - 1, nbad>>)
=============================================================================
