SPECIFICATION Spec
CONSTANTS
  Docs <- DocsThorough
  HandlerSets <- HSThorough
INVARIANT NoPanic
INVARIANT Refines
INVARIANT EndOnce
INVARIANT CountsExact
INVARIANT LocatorsValid
INVARIANT Emit
CHECK_DEADLOCK FALSE
