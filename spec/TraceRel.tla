---------------------------- MODULE TraceRel ----------------------------
(***************************************************************************)
(* Relational (product-trace) properties: the record carries several       *)
(* observations of the real code that the property says must agree; TLC    *)
(* decides the relation.  Nothing here models lol-html's mechanism.        *)
(*   C02  same configuration and input, different chunkings (and           *)
(*        rewrite_str): equal up to the fragmentation of text nodes        *)
(*   C06  handler set H versus H plus observers: equal on H's handlers     *)
(*   C18  repeated / concurrent / migrated runs: identical                 *)
(*   C17  C API versus Rust API: equal                                     *)
(* Record: [id, clauses, hs (handler ids compared; <<>> = all),            *)
(*          obs : sequence of [variant, res, sink, evs]]                   *)
(* Event:  [k, h, sig, text, tt, last]; sig is an injective rendering of   *)
(* everything the handler observed except text content and locations.      *)
(* obs[1] is the base observation, every other one is compared with it.    *)
(***************************************************************************)
EXTENDS Naturals, Integers, Sequences, SequencesExt, TLC, Json, IOUtils

Rec == ndJsonDeserialize(IOEnv.TRACE)
VARIABLES l, nbad
vars == <<l, nbad>>

On(r, c) == \E i \in DOMAIN r.clauses : r.clauses[i] = c
InH(r, h) == r.hs = <<>> \/ \E i \in DOMAIN r.hs : r.hs[i] = h

\* the events of the compared handlers
Sel(r, evs) == SelectSeq(evs, LAMBDA e : InH(r, e.h))

\* everything except text chunks, in order
NonText(evs) == LET s == SelectSeq(evs, LAMBDA e : e.k # "tx") IN [i \in 1..Len(s) |-> <<s[i].h, s[i].k, s[i].sig>>]

\* text nodes as one handler saw them: chunks are concatenated up to the chunk flagged last
RECURSIVE Nodes(_, _, _)
Nodes(evs, i, open) ==     \* open = <<>> or <<[text, tt]>>
  IF i > Len(evs) THEN (IF open = <<>> THEN <<>> ELSE <<[text |-> open[1].text, tt |-> open[1].tt, closed |-> FALSE]>>)
  ELSE LET e == evs[i]
           o == IF open = <<>> THEN [text |-> e.text, tt |-> e.tt] ELSE [open[1] EXCEPT !.text = @ \o e.text]
       IN IF e.last THEN <<[text |-> o.text, tt |-> o.tt, closed |-> TRUE]>> \o Nodes(evs, i + 1, <<>>)
          ELSE Nodes(evs, i + 1, <<o>>)

Handlers(evs) == {evs[i].h : i \in {j \in 1..Len(evs) : evs[j].k = "tx"}}
TextOf(evs, h) == Nodes(SelectSeq(evs, LAMBDA e : e.k = "tx" /\ e.h = h), 1, <<>>)

\* the position of every non-text event relative to text nodes is also invariant: render the event list
\* with text chunks replaced by node boundaries per handler
RECURSIVE Skeleton(_, _)
Skeleton(evs, i) ==
  IF i > Len(evs) THEN <<>>
  ELSE LET e == evs[i] IN
       IF e.k = "tx" THEN (IF e.last THEN <<<<e.h, "tx-end", "">>>> ELSE <<>>) \o Skeleton(evs, i + 1)
       ELSE <<<<e.h, e.k, e.sig>>>> \o Skeleton(evs, i + 1)

\* exactly one chunk per node is flagged last and it is the final chunk: every node is closed when the run succeeded
AllClosed(nodes) == \A i \in 1..Len(nodes) : nodes[i].closed

Same(r, a, b) ==
  LET ea == Sel(r, a.evs)  eb == Sel(r, b.evs) IN
  IF a.res # b.res THEN "results differ"
  \* a run that fails (strict-mode ambiguity) stops at the same token under every schedule; how much of the
  \* output had already left the rewriter at that moment is not constrained by the property
  ELSE IF a.res # "ok" THEN (IF NonText(ea) # NonText(eb) THEN "handler-visible events before the failure differ" ELSE "ok")
  ELSE IF a.sink # b.sink THEN "output bytes differ"
  ELSE IF NonText(ea) # NonText(eb) THEN "handler-visible events differ"
  ELSE IF Handlers(ea) # Handlers(eb) THEN "text reaches different handlers"
  ELSE IF \E h \in Handlers(ea) : TextOf(ea, h) # TextOf(eb, h) THEN "text nodes differ (content, type or last flag)"
  ELSE IF a.res = "ok" /\ \E h \in Handlers(eb) : ~AllClosed(TextOf(eb, h)) THEN "a text node has no chunk flagged last_in_text_node"
  ELSE IF Skeleton(ea, 1) # Skeleton(eb, 1) THEN "order of events relative to text nodes differs"
  ELSE "ok"

Identical(a, b) ==
  IF a.res # b.res THEN "results differ"
  ELSE IF a.sink # b.sink THEN "output bytes differ"
  ELSE IF Len(a.evs) # Len(b.evs) THEN "number of events differs"
  ELSE IF \E i \in 1..Len(a.evs) : <<a.evs[i].h, a.evs[i].k, a.evs[i].sig, a.evs[i].text, a.evs[i].tt, a.evs[i].last>>
                                  # <<b.evs[i].h, b.evs[i].k, b.evs[i].sig, b.evs[i].text, b.evs[i].tt, b.evs[i].last>>
       THEN "events differ"
  ELSE "ok"

RECURSIVE FirstBad(_, _)
FirstBad(r, i) ==
  IF i > Len(r.obs) THEN "ok"
  ELSE LET v == IF On(r, "C18") \/ On(r, "C17") THEN Identical(r.obs[1], r.obs[i]) ELSE Same(r, r.obs[1], r.obs[i]) IN
       IF v = "ok" THEN FirstBad(r, i + 1) ELSE r.clauses[1] \o ": " \o v \o " (" \o r.obs[1].variant \o " vs " \o r.obs[i].variant \o ")"

Verdict(r) == FirstBad(r, 2)

TInit == l = 1 /\ nbad = 0
TNext == /\ l <= Len(Rec)
         /\ LET v == Verdict(Rec[l]) IN
            IF v = "ok" THEN UNCHANGED nbad ELSE PrintT(<<"BAD", Rec[l].id, 0, v>>) /\ nbad' = nbad + 1
         /\ l' = l + 1
TSpec == TInit /\ [][TNext]_vars
Accepted == PrintT(<<"TRACE-SUMMARY", Len(Rec), TLCGet("stats").diameter>>)
AtEnd == l = Len(Rec) + 1 => PrintT(<<"TRACE-END", l - 1, nbad>>)
=============================================================================
