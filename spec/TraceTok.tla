---------------------------- MODULE TraceTok ----------------------------
(***************************************************************************)
(* Trace validation of the token-level observations of the real rewriter   *)
(* (capture-all configuration) against the reference tokenizer Tok:        *)
(*   C14  every reported range is exactly one construct; attribute ranges  *)
(*        are the name / value bytes; ranges are monotone, non-overlapping *)
(*        and tile the input up to token-less raw pieces; text chunk       *)
(*        ranges are contiguous and cover their node                       *)
(*   C16  the read API of a start tag equals the reference tag token       *)
(*   C03  the whole token stream equals Tokenize(input, fb) (see cfg.fb)   *)
(* One record per run:                                                     *)
(*   [id, clauses, input, utf8, strict, res, toks : observed events]       *)
(* One TLC state per record (the judgement is a function of the record).   *)
(***************************************************************************)
EXTENDS Naturals, Integers, Sequences, SequencesExt, TLC, Json, IOUtils, Tok

Rec == ndJsonDeserialize(IOEnv.TRACE)

VARIABLES l, nbad
vars == <<l, nbad>>

On(r, c) == \E i \in DOMAIN r.clauses : r.clauses[i] = c

\* ---- strings: decoded code points of a byte slice -------------------------------------------
IsCont(b) == b >= 128 /\ b <= 191
RECURSIVE Utf8(_)
\* sequence of code points, or <<-1>> if the slice is not valid UTF-8
Utf8(b) ==
  IF b = <<>> THEN <<>>
  ELSE LET b0 == b[1] n == Len(b) IN
    IF b0 < 128 THEN LET r == Utf8(Tail(b)) IN IF r = <<-1>> THEN r ELSE <<b0>> \o r
    ELSE IF b0 >= 194 /\ b0 <= 223 /\ n >= 2 /\ IsCont(b[2]) THEN
         LET r == Utf8(SubSeq(b, 3, n)) IN IF r = <<-1>> THEN r ELSE <<(b0 - 192) * 64 + (b[2] - 128)>> \o r
    ELSE IF b0 >= 224 /\ b0 <= 239 /\ n >= 3 /\ IsCont(b[2]) /\ IsCont(b[3])
            /\ (b0 # 224 \/ b[2] >= 160) /\ (b0 # 237 \/ b[2] <= 159) THEN
         LET r == Utf8(SubSeq(b, 4, n)) IN
         IF r = <<-1>> THEN r ELSE <<(b0 - 224) * 4096 + (b[2] - 128) * 64 + (b[3] - 128)>> \o r
    ELSE IF b0 >= 240 /\ b0 <= 244 /\ n >= 4 /\ IsCont(b[2]) /\ IsCont(b[3]) /\ IsCont(b[4])
            /\ (b0 # 240 \/ b[2] >= 144) /\ (b0 # 244 \/ b[2] <= 143) THEN
         LET r == Utf8(SubSeq(b, 5, n)) IN
         IF r = <<-1>> THEN r
         ELSE <<(b0 - 240) * 262144 + (b[2] - 128) * 4096 + (b[3] - 128) * 64 + (b[4] - 128)>> \o r
    ELSE <<-1>>

AllAscii(b) == \A i \in 1..Len(b) : b[i] < 128
\* decoded value of a byte slice when the specification can compute it itself, else <<-1>>
Dec(r, b) == IF AllAscii(b) THEN b ELSE IF r.utf8 THEN Utf8(b) ELSE <<-1>>
\* "observed string equals the decoding of these bytes" (vacuous when the decoding is a table lookup: C13)
SameStr(r, obs, b) == LET d == Dec(r, b) IN d = <<-1>> \/ obs = d
SameLower(r, obs, b) == LET d == Dec(r, b) IN d = <<-1>> \/ obs = LowerSeq(d)

Slice(r, s, e) == SubSeq(r.input, s + 1, e)

\* ---- C14 (a): a reported range is exactly one construct ----------------------------------------
OneTok(r, t) ==
  LET sl == Slice(r, t.s, t.e)
      rt == TokenizeFrom(sl, "none", FALSE, "Data", <<>>, FALSE).toks
  IN IF t.s < 0 \/ t.e > Len(r.input) \/ t.s >= t.e THEN <<>>
     ELSE IF Len(rt) = 1 /\ rt[1].s = 0 /\ rt[1].e = Len(sl) THEN rt ELSE <<>>

KindOf(t) == t.k

TagRangeOk(r, t) ==
  LET rt == OneTok(r, t) IN
  /\ rt # <<>>
  /\ rt[1].k = KindOf(t)
  \* from '<' to '>' for tags
  /\ (t.k \in {"st", "et"} => r.input[t.s + 1] = LT /\ r.input[t.e] = GT)

\* ---- C14 (b) + C16: the start tag's read API against the reference tag token --------------------
AttrOk(r, t, ra, oa, chkLoc, chkVal) ==
  LET nb == Slice(r, t.s + ra[1], t.s + ra[2])
      vb == Slice(r, t.s + ra[3], t.s + ra[4])
  IN /\ chkVal => SameLower(r, oa.n, nb) /\ SameStr(r, oa.nr, nb) /\ SameStr(r, oa.v, vb)
     /\ chkLoc => /\ oa.nl = <<t.s + ra[1], t.s + ra[2]>>
                  \* a non-empty value is reported exactly; a missing or empty value as an empty range
                  \* located after the name, inside the tag
                  /\ IF ra[4] > ra[3] THEN oa.vl = <<t.s + ra[3], t.s + ra[4]>>
                     ELSE Len(oa.vl) = 2 /\ oa.vl[1] = oa.vl[2] /\ oa.vl[1] >= t.s + ra[2] /\ oa.vl[1] <= t.e

StartTagOk(r, t, chkLoc, chkVal) ==
  LET rt == OneTok(r, t) IN
  /\ rt # <<>> /\ rt[1].k = "st"
  /\ LET ref == rt[1]  sl == Slice(r, t.s, t.e)  nb == SubSeq(sl, ref.nm[1] + 1, ref.nm[2]) IN
     /\ chkVal => SameLower(r, t.name, nb) /\ SameStr(r, t.nameraw, nb)
     /\ chkVal => t.sc = ref.sc
     /\ Len(t.attrs) = Len(ref.attrs)
     /\ \A i \in 1..Len(ref.attrs) : AttrOk(r, t, ref.attrs[i], t.attrs[i], chkLoc, chkVal)

\* lookups performed by the handler: [op, arg (code points), has, v]
RECURSIVE FirstAttr(_, _, _)
FirstAttr(attrs, lname, i) ==
  IF i > Len(attrs) THEN 0 ELSE IF attrs[i].n = lname THEN i ELSE FirstAttr(attrs, lname, i + 1)
LookupOk(t, q) ==
  LET idx == FirstAttr(t.attrs, LowerSeq(q.arg), 1) IN
  /\ q.has = (idx # 0)
  /\ (q.op = "get_attr" /\ idx # 0) => q.v = t.attrs[idx].v

VoidNames == {n_area, n_base, n_basefont, n_bgsound, n_br, n_col, n_embed, n_hr, n_img, n_input, n_keygen,
              n_link, n_meta, n_param, n_source, n_track, n_wbr}
HtmlNs == "http://www.w3.org/1999/xhtml"
ContentOk(t) == IF t.ns = HtmlNs THEN t.chc = (t.name \notin VoidNames) ELSE t.chc = ~t.sc

\* ---- C16: reads after set_attribute / remove_attribute / set_tag_name reflect those edits -------------
\* The documented attribute-list model: names compare ASCII case-insensitively; set_attribute replaces the
\* value of the existing attribute or appends a new (lower-cased) one; remove_attribute removes it;
\* set_tag_name changes both spellings.  A rejected call (ok = FALSE) leaves the element unchanged.
RECURSIVE FirstNamed(_, _, _)
FirstNamed(attrs, lname, i) == IF i > Len(attrs) THEN 0 ELSE IF attrs[i].n = lname THEN i ELSE FirstNamed(attrs, lname, i + 1)
DropAt(sq, i) == SubSeq(sq, 1, i - 1) \o SubSeq(sq, i + 1, Len(sq))
ApplyEdit(st, ed, rmAll) ==
  LET ln == LowerSeq(ed.n)  idx == FirstNamed(st.attrs, ln, 1) IN
  IF ~ed.ok THEN st
  ELSE CASE ed.op = "set_attr" -> IF idx # 0 THEN [st EXCEPT !.attrs[idx] = [n |-> ln, v |-> ed.v]]
                                  ELSE [st EXCEPT !.attrs = Append(@, [n |-> ln, v |-> ed.v])]
         [] ed.op = "rm_attr"  -> IF idx = 0 THEN st
                                  ELSE IF rmAll THEN [st EXCEPT !.attrs = SelectSeq(@, LAMBDA a : a.n # ln)]
                                  ELSE [st EXCEPT !.attrs = DropAt(@, idx)]
         [] ed.op = "set_name" -> [st EXCEPT !.name = ln, !.nameraw = ed.n]
RECURSIVE ApplyEdits(_, _, _, _)
ApplyEdits(st, eds, i, rmAll) == IF i > Len(eds) THEN st ELSE ApplyEdits(ApplyEdit(st, eds[i], rmAll), eds, i + 1, rmAll)
NV(attrs) == [i \in 1..Len(attrs) |-> [n |-> attrs[i].n, v |-> attrs[i].v]]
EditsOk(t) ==
  t.edits = <<>> \/
  LET st0 == [name |-> t.name, nameraw |-> t.nameraw, attrs |-> NV(t.attrs)]
      post == [name |-> t.post.name, nameraw |-> t.post.nameraw, attrs |-> NV(t.post.attrs)]
  IN \* after remove_attribute(n) a read must not find n any more: with duplicate attributes in the source all of them go
     post = ApplyEdits(st0, t.edits, 1, TRUE)

\* ---- C14 (c): order ------------------------------------------------------------------------------
\* (one end tag may close several elements: each of their end-tag handlers sees the same range)
SameEndTag(a, b) == a.k = "et" /\ b.k = "et" /\ a.s = b.s /\ a.e = b.e
Monotone(toks) == \A i \in 2..Len(toks) : toks[i].s >= toks[i - 1].e \/ SameEndTag(toks[i], toks[i - 1])

\* text chunks of one node: contiguous, inside the node, together covering it. A node is the maximal run
\* of "tx" events up to the one flagged last.
RECURSIVE TextOk(_, _, _)
TextOk(toks, i, prevEnd) ==   \* prevEnd = -1 when no node is open
  IF i > Len(toks) THEN TRUE
  ELSE LET t == toks[i] IN
       IF t.k # "tx" THEN prevEnd = -1 /\ TextOk(toks, i + 1, -1)  \* a node is closed (last) before any other token
       ELSE /\ t.s <= t.e
            /\ (prevEnd # -1 => t.s = prevEnd)
            /\ TextOk(toks, i + 1, IF t.last THEN -1 ELSE t.e)

\* ---- full-stream comparison with the reference tokenization (C14 tiling, C03) ----------------------
RECURSIVE FoldText(_, _, _)
\* observed events -> tokens with text chunks folded into nodes [k, s, e, tt]
FoldText(toks, i, open) ==
  IF i > Len(toks) THEN (IF open = <<>> THEN <<>> ELSE <<open[1]>>)
  ELSE LET t == toks[i] IN
       IF t.k = "tx" THEN
            LET o == IF open = <<>> THEN [k |-> "tx", s |-> t.s, e |-> t.e, tt |-> t.tt]
                     ELSE [open[1] EXCEPT !.e = t.e] IN
            IF t.last THEN <<o>> \o FoldText(toks, i + 1, <<>>) ELSE FoldText(toks, i + 1, <<o>>)
       ELSE IF i > 1 /\ SameEndTag(t, toks[i - 1]) THEN FoldText(toks, i + 1, open)
       ELSE (IF open = <<>> THEN <<>> ELSE <<open[1]>>) \o <<[k |-> t.k, s |-> t.s, e |-> t.e, tt |-> ""]>> \o FoldText(toks, i + 1, <<>>)

RefShape(toks) == LET nr == SelectSeq(toks, LAMBDA t : t.k # "raw") IN
                  [i \in 1..Len(nr) |-> [k |-> nr[i].k, s |-> nr[i].s, e |-> nr[i].e, tt |-> IF nr[i].k = "tx" THEN nr[i].tt ELSE ""]]
\* empty text nodes (zero-length) are never reported by the reference
ObsShape(r) == SelectSeq(FoldText(r.toks, 1, <<>>), LAMBDA t : t.k # "tx" \/ t.e > t.s)

\* End tags are observable only through the end-tag handler of a matched element (stray end tags and
\* end tags of elements that are still open at the end have no event), so whole-stream comparison
\* leaves them out; every observed end tag range is checked individually by TagRangeOk.
NoEt(seq) == SelectSeq(seq, LAMBDA t : t.k # "et")
StreamOk(r) ==
  LET ref == Tokenize(r.input, r.fb, r.strict) IN
  IF ref.err # "" THEN r.res = "err:ambiguity"
  ELSE r.res = "ok" /\ NoEt(ObsShape(r)) = NoEt(RefShape(ref.toks))

\* ---- C16: namespace_uri agrees with the foreign-content context ----------------------------------------
NsUri(ns) == CASE ns = "svg" -> "http://www.w3.org/2000/svg" [] ns = "mathml" -> "http://www.w3.org/1998/Math/MathML"
               [] OTHER -> "http://www.w3.org/1999/xhtml"
\* "ok" | "bad" | "S16" (explained by the simulator's after-the-tag namespace)
NsVerdict(r) ==
  LET ref == Tokenize(r.input, "sim", FALSE).toks
      Bad(t, useL1) == \E j \in 1..Len(ref) : ref[j].k = "st" /\ ref[j].s = t.s /\ ref[j].e = t.e
                                              /\ t.ns # NsUri(IF useL1 THEN ref[j].ns1 ELSE ref[j].ns)
      sts == {i \in 1..Len(r.toks) : r.toks[i].k = "st"}
  IN IF \A i \in sts : ~Bad(r.toks[i], FALSE) THEN "ok"
     ELSE IF \A i \in sts : ~Bad(r.toks[i], TRUE) THEN "S16"
     ELSE "bad"

\* ---- verdict ---------------------------------------------------------------------------------------
\* the jobs judged here register observers (or edits that cannot be refused) only: a run may fail with the
\* ambiguity error in strict mode and in no other way
Verdict(r) ==
  IF r.res # "ok" /\ ~(r.strict /\ r.res = "err:ambiguity")
     THEN (IF On(r, "C14") THEN "C14" ELSE IF On(r, "C16") THEN "C16" ELSE "C03") \o ": a run that has no reason to fail failed: " \o r.res
  ELSE IF On(r, "C14") /\ \E i \in 1..Len(r.toks) : "s2" \in DOMAIN r.toks[i] /\ r.toks[i].s2 >= 0 /\ (r.toks[i].s2 # r.toks[i].s \/ r.toks[i].e2 # r.toks[i].e)
       THEN "C14: the range reported for a token changed after the handler edited the token"
  ELSE IF On(r, "C14") /\ r.res = "ok" /\ ~Monotone(r.toks) THEN "C14: ranges overlap or go backwards"
  ELSE IF On(r, "C14") /\ r.res = "ok" /\ ~TextOk(r.toks, 1, -1) THEN "C14: text chunk ranges are not contiguous within their node"
  ELSE IF On(r, "C14") /\ \E i \in 1..Len(r.toks) : r.toks[i].k \in {"st", "et", "cm", "dt"} /\ ~TagRangeOk(r, r.toks[i])
       THEN "C14: a reported range is not exactly one construct of its kind"
  ELSE IF On(r, "C14") /\ \E i \in 1..Len(r.toks) : r.toks[i].k = "st" /\ ~StartTagOk(r, r.toks[i], TRUE, FALSE)
       THEN "C14: attribute name/value range is not the attribute's bytes"
  ELSE IF On(r, "C14") /\ r.res = "ok" /\ r.fb # "none" /\ ~StreamOk(r) THEN "C14: reported ranges do not tile the input (token stream differs from the reference)"
  ELSE IF On(r, "C16") /\ \E i \in 1..Len(r.toks) : r.toks[i].k = "st" /\ ~StartTagOk(r, r.toks[i], FALSE, TRUE)
       THEN "C16: name / attribute list / self-closing flag differ from the start tag's source"
  ELSE IF On(r, "C16") /\ \E i \in 1..Len(r.toks) : r.toks[i].k = "st" /\ \E j \in 1..Len(r.toks[i].q) : ~LookupOk(r.toks[i], r.toks[i].q[j])
       THEN "C16: get_attribute/has_attribute is not a case-insensitive first-match lookup"
  ELSE IF On(r, "C16") /\ \E i \in 1..Len(r.toks) : r.toks[i].k = "st" /\ ~EditsOk(r.toks[i])
       THEN "C16: reads after set_attribute/remove_attribute/set_tag_name do not reflect the edits"
  ELSE IF On(r, "C16") /\ \E i \in 1..Len(r.toks) : r.toks[i].k = "st" /\ ~ContentOk(r.toks[i])
       THEN "C16: can_have_content disagrees with the void list / self-closing syntax"
  ELSE IF On(r, "C16") /\ r.res = "ok" /\ r.fb = "sim" /\ NsVerdict(r) # "ok"
       THEN "C16: namespace_uri disagrees with the foreign-content context" \o (IF NsVerdict(r) = "S16" THEN " [explained-by:S16]" ELSE "")
  ELSE IF On(r, "C03") /\ ~StreamOk(r) THEN "C03: token stream differs from the reference tokenization"
  ELSE "ok"

TInit == l = 1 /\ nbad = 0
TNext == /\ l <= Len(Rec)
         /\ LET v == Verdict(Rec[l]) IN
            IF v = "ok" THEN UNCHANGED nbad ELSE PrintT(<<"BAD", Rec[l].id, 0, v>>) /\ nbad' = nbad + 1
         /\ l' = l + 1
TSpec == TInit /\ [][TNext]_vars
Accepted == PrintT(<<"TRACE-SUMMARY", Len(Rec), TLCGet("stats").diameter>>)
AtEnd == l = Len(Rec) + 1 => PrintT(<<"TRACE-END", l - 1, nbad>>)
=============================================================================
