SPECIFICATION TSpec
INVARIANT AtEnd
POSTCONDITION Accepted
CHECK_DEADLOCK FALSE
