------------------------------ MODULE Handlers ------------------------------
(***************************************************************************)
(* L2: the handler dispatcher as built (src/rewriter/handlers_dispatcher.rs *)
(* and rewrite_controller.rs): handlers live in vectors with user counts;   *)
(* a match increments the counts of the selector's text / comment handlers  *)
(* (only when the element can have content) and of its element handler;    *)
(* element handlers run once on the start tag and are deactivated; an       *)
(* element's end-tag handler is appended to a vector when its start tag is  *)
(* handled and activated when the element leaves the open-element stack;    *)
(* the end tag token runs the active end-tag handlers in reverse and drops  *)
(* the tail of the vector; capture flags (which tokens are produced at all) *)
(* follow from the counts.  Matching itself is abstracted by the match      *)
(* relation of Selectors (which SelectorVM refines).                        *)
(* MC_Handlers checks that what this machine invokes is exactly what the    *)
(* scope contract Scope says (C05 at design level).                          *)
(***************************************************************************)
EXTENDS Naturals, Sequences, FiniteSets, TLC, Json, Scope

CONSTANTS Docs,      \* documents: items "st" | "et" | "tx" | "cm" | "dt"
          HandlerSets \* [elemH : seq of [sel, el, tx, cm, et], docH : seq of [dt, cm, tx, de]];  et = the element handler registers an end-tag handler
VARIABLES doc, hs, pc,
          stack,   \* open elements: [item, name, mids (matched selector indices), eth (locator into ethv, 0 = none)]
          elc, txc, cmc,   \* user counts of the selector-associated element / text / comment handlers (by selector index)
          ethv,    \* the end-tag handler vector: [hs (selector indices whose handlers registered it), uc]
          log,     \* invocations: <<item, class, index, kind>>
          panic    \* a debug assertion of the dispatcher would fire
vars == <<doc, hs, pc, stack, elc, txc, cmc, ethv, log, panic>>

NH == Len(hs.elemH)
Zero == [h \in 1..NH |-> 0]
Init == /\ doc \in Docs /\ hs \in HandlerSets /\ pc = 1 /\ stack = <<>>
        /\ elc = [h \in 1..Len(hs.elemH) |-> 0] /\ txc = [h \in 1..Len(hs.elemH) |-> 0] /\ cmc = [h \in 1..Len(hs.elemH) |-> 0]
        /\ ethv = <<>> /\ log = <<>> /\ panic = FALSE

Tr == Tree(doc)
Matched(i) == {h \in 1..NH : Matches(doc, Tr, i, hs.elemH[h].sel, "css")}
\* ascending sequence of a finite set of naturals
RECURSIVE SeqOf(_)
SeqOf(S) == IF S = {} THEN <<>> ELSE LET m == CHOOSE x \in S : \A y \in S : x <= y IN <<m>> \o SeqOf(S \ {m})
DocIdx(P(_)) == SelectSeq([j \in 1..Len(hs.docH) |-> j], P)

\* ---- start tag --------------------------------------------------------------------------------------------
StartTag ==
  /\ ~panic /\ pc <= Len(doc) /\ doc[pc].k = "st"
  /\ LET t == doc[pc]  wc == ~ClosesImmediately(t)  M == Matched(pc)
         \* start_matching for every match (ascending match id)
         tx1 == [h \in 1..NH |-> IF h \in M /\ wc /\ hs.elemH[h].tx THEN txc[h] + 1 ELSE txc[h]]
         cm1 == [h \in 1..NH |-> IF h \in M /\ wc /\ hs.elemH[h].cm THEN cmc[h] + 1 ELSE cmc[h]]
         el1 == [h \in 1..NH |-> IF h \in M /\ hs.elemH[h].el THEN elc[h] + 1 ELSE elc[h]]
         \* NEXT_START_TAG: the token is produced iff an element handler is active
         run == SeqOf({h \in 1..NH : el1[h] > 0})
         evs == [k \in 1..Len(run) |-> <<pc, "e", run[k], "el">>]
         \* the element's end-tag handler: the handlers registered by the element handlers that just ran
         ets == SelectSeq(run, LAMBDA h : hs.elemH[h].et)
         newEth == IF wc /\ M # {} /\ ets # <<>> THEN Append(ethv, [hs |-> ets, uc |-> 0]) ELSE ethv
         loc == IF wc /\ M # {} /\ ets # <<>> THEN Len(newEth) ELSE 0
     IN /\ txc' = tx1 /\ cmc' = cm1
        /\ elc' = [h \in 1..NH |-> 0]         \* do_for_each_active_and_deactivate
        /\ log' = log \o evs
        /\ ethv' = newEth
        /\ stack' = IF wc THEN Append(stack, [item |-> pc, name |-> Low(t.n), mids |-> M, eth |-> loc]) ELSE stack
        /\ pc' = pc + 1
  /\ UNCHANGED <<doc, hs, panic>>

\* ---- end tag ----------------------------------------------------------------------------------------------
EndTag ==
  /\ ~panic /\ pc <= Len(doc) /\ doc[pc].k = "et"
  /\ LET nm == Low(doc[pc].n)
         open == \E j \in 1..Len(stack) : stack[j].name = nm IN
     IF ~open THEN UNCHANGED <<stack, txc, cmc, ethv, log, panic>>
     ELSE LET idx == CHOOSE j \in 1..Len(stack) : stack[j].name = nm /\ \A q \in (j + 1)..Len(stack) : stack[q].name # nm
              gone == SubSeq(stack, idx, Len(stack))
              Dec(c, kind) == [h \in 1..NH |-> c[h] - Cardinality({g \in 1..Len(gone) : h \in gone[g].mids /\ hs.elemH[h][kind]})]
              \* stop_matching activates the popped elements' end-tag handlers
              act == {gone[g].eth : g \in 1..Len(gone)} \ {0}
              dangling == \E a \in act : a > Len(ethv)
              ev1 == [q \in 1..Len(ethv) |-> IF q \in act THEN [ethv[q] EXCEPT !.uc = @ + 1] ELSE ethv[q]]
              \* NEXT_END_TAG: the token is produced iff an end-tag handler is active; active ones run in reverse order and
              \* the vector is cut at the first active one
              actives == {q \in 1..Len(ev1) : ev1[q].uc > 0}
              first == IF actives = {} THEN 0 ELSE CHOOSE q \in actives : \A y \in actives : q <= y
              RECURSIVE Rev(_)
              Rev(q) == IF q < first \/ first = 0 THEN <<>>
                        ELSE (IF ev1[q].uc > 0 THEN [k \in 1..Len(ev1[q].hs) |-> <<pc, "e", ev1[q].hs[k], "et">>] ELSE <<>>) \o Rev(q - 1)
          IN /\ panic' = dangling
             /\ txc' = Dec(txc, "tx") /\ cmc' = Dec(cmc, "cm")
             /\ stack' = SubSeq(stack, 1, idx - 1)
             /\ IF dangling THEN UNCHANGED <<ethv, log>>
                ELSE /\ log' = log \o Rev(Len(ev1))
                     /\ ethv' = IF first = 0 THEN ev1 ELSE SubSeq(ev1, 1, first - 1)
  /\ pc' = pc + 1
  /\ UNCHANGED <<doc, hs, elc>>

\* ---- text, comments, doctype ----------------------------------------------------------------------------
Other ==
  /\ ~panic /\ pc <= Len(doc) /\ doc[pc].k \in {"tx", "cm", "dt", "raw"}
  /\ LET k == doc[pc].k
         selH == IF k = "tx" THEN SeqOf({h \in 1..NH : txc[h] > 0}) ELSE IF k = "cm" THEN SeqOf({h \in 1..NH : cmc[h] > 0}) ELSE <<>>
         docH == IF k = "raw" THEN <<>> ELSE DocIdx(LAMBDA j : hs.docH[j][k])
     IN log' = log \o [q \in 1..Len(selH) |-> <<pc, "e", selH[q], k>>] \o [q \in 1..Len(docH) |-> <<pc, "d", docH[q], k>>]
  /\ pc' = pc + 1
  /\ UNCHANGED <<doc, hs, stack, elc, txc, cmc, ethv, panic>>

\* ---- end of the document --------------------------------------------------------------------------------
End ==
  /\ ~panic /\ pc = Len(doc) + 1
  /\ LET de == DocIdx(LAMBDA j : hs.docH[j].de) IN
     log' = log \o [q \in 1..Len(de) |-> <<pc, "d", de[Len(de) + 1 - q], "de">>]     \* reverse registration order
  /\ pc' = pc + 1
  /\ UNCHANGED <<doc, hs, stack, elc, txc, cmc, ethv, panic>>

Next == StartTag \/ EndTag \/ Other \/ End
Spec == Init /\ [][Next]_vars

\* ---- properties -----------------------------------------------------------------------------------------------
Done == pc = Len(doc) + 2
NoPanic == ~panic
At(i) == SelectSeq(log, LAMBDA e : e[1] = i)
Ms == [h \in 1..NH |-> {i \in StartTags(doc) : Matches(doc, Tr, i, hs.elemH[h].sel, "css")}]
\* Scope's handler records have no "et" field; its EndTagBag counts one end-tag handler per (closed element, element
\* handler that matched it): here an element handler registers one iff hs.elemH[h].et
ScopeH == [h \in 1..NH |-> [sel |-> hs.elemH[h].sel, el |-> hs.elemH[h].el, tx |-> hs.elemH[h].tx, cm |-> hs.elemH[h].cm]]
Refines == Done =>
  \A i \in 1..Len(doc) :
    LET evs == At(i) IN
    IF doc[i].k = "et" THEN
         LET exp == {p \in EndTagBag(doc, Tr, Ms, ScopeH, i) : hs.elemH[p[2]].et} IN
         \* as a bag over handler indices
         /\ \A h \in 1..NH : Cardinality({q \in 1..Len(evs) : evs[q][3] = h}) = Cardinality({p \in exp : p[2] = h})
         /\ \A q \in 1..Len(evs) : evs[q][4] = "et" /\ evs[q][2] = "e"
    ELSE [q \in 1..Len(evs) |-> <<evs[q][2], evs[q][3], evs[q][4]>>] = ExpectedFor(doc, Tr, Ms, ScopeH, hs.docH, i)
EndOnce == Done =>
  LET evs == At(Len(doc) + 1) IN
  /\ {evs[q][3] : q \in 1..Len(evs)} = {j \in 1..Len(hs.docH) : hs.docH[j].de}
  /\ Len(evs) = Cardinality({j \in 1..Len(hs.docH) : hs.docH[j].de})
\* counts are exactly the number of open elements in whose scope the handler is
CountsExact ==
  \A h \in 1..NH :
     /\ txc[h] = (IF hs.elemH[h].tx THEN Cardinality({j \in 1..Len(stack) : h \in stack[j].mids}) ELSE 0)
     /\ cmc[h] = (IF hs.elemH[h].cm THEN Cardinality({j \in 1..Len(stack) : h \in stack[j].mids}) ELSE 0)
     /\ elc[h] = 0
\* every locator held by an open element points into the vector, at an inactive entry
\* every (document, handler set) of the instance, printed once for replay in the real code (job c05)
\* (documents of up to 3 items and the hand-picked longer ones; the 4-item documents of the thorough instance are only model-checked)
Emit == (Done /\ (Len(doc) <= 3 \/ Len(doc) >= 5)) => PrintT(<<"REPLAY", ToJson([hdoc |-> doc, hs |-> hs])>>)
LocatorsValid == \A j \in 1..Len(stack) : stack[j].eth = 0 \/ (stack[j].eth <= Len(ethv) /\ ethv[stack[j].eth].uc = 0)
=============================================================================
