---------------------------- MODULE TraceCApi ----------------------------
(***************************************************************************)
(* C17.  (1) Every create/use/free history executed through the real      *)
(* extern "C" symbols is validated call by call against the lifecycle /    *)
(* error contract CApi (one TLC state per call).  (2) The handler-visible  *)
(* values and sink bytes of the C run equal those of the mirrored Rust     *)
(* configuration (product record, same comparison as TraceRel/Identical).  *)
(* Record: [id, api : seq of events, rust, c : observations [res, sink, evs]] *)
(***************************************************************************)
EXTENDS Naturals, Integers, Sequences, TLC, Json, IOUtils

Rec == ndJsonDeserialize(IOEnv.TRACE)
A == INSTANCE CApi
VARIABLES l, k, m, nbad
vars == <<l, k, m, nbad>>

Identical(a, b) ==
  IF a.res # b.res THEN "results differ between the C and the Rust run"
  ELSE IF a.sink # b.sink THEN "sink bytes differ between the C and the Rust run"
  ELSE IF Len(a.evs) # Len(b.evs) THEN "number of handler invocations differs between the C and the Rust run"
  ELSE IF \E i \in 1..Len(a.evs) : <<a.evs[i].h, a.evs[i].k, a.evs[i].sig, a.evs[i].text, a.evs[i].last>> # <<b.evs[i].h, b.evs[i].k, b.evs[i].sig, b.evs[i].text, b.evs[i].last>>
       THEN "handler-visible values differ between the C and the Rust run"
  ELSE "ok"

\* the last-error string taken after a failed write / end is the message of THAT failure: it equals the Display
\* of the error the Rust API returns for the same call (witness: the mirrored Rust run).  Failures raised by a
\* handler carry the handler's own text on the Rust side and are not compared.
MsgOk(r) == ~("msgs" \in DOMAIN r) \/ r.msgs.c.res # r.msgs.rust.res \/ r.msgs.c.res \notin {"err:mem", "err:ambiguity"}
            \/ r.msgs.c.m = r.msgs.rust.m

TInit == l = 1 /\ k = 1 /\ m = A!Init /\ nbad = 0
Report(why) == PrintT(<<"BAD", Rec[l].id, k, "C17: " \o why>>)
NextRec == l' = l + 1 /\ k' = 1 /\ m' = A!Init
Consume ==
  /\ l <= Len(Rec) /\ k <= Len(Rec[l].api)
  /\ LET mm == A!Step(m, Rec[l].api[k]) IN
     IF mm.ok THEN m' = mm /\ k' = k + 1 /\ UNCHANGED <<l, nbad>>
     ELSE Report(mm.why) /\ nbad' = nbad + 1 /\ NextRec
Finish ==
  /\ l <= Len(Rec) /\ k = Len(Rec[l].api) + 1
  /\ LET v0 == IF Rec[l].compare THEN Identical(Rec[l].rust, Rec[l].c) ELSE "ok"
         v == IF v0 = "ok" /\ Rec[l].compare /\ ~MsgOk(Rec[l]) THEN "the last-error message after a failed call is not the message of that failure" ELSE v0 IN
     IF v = "ok" THEN UNCHANGED nbad ELSE Report(v) /\ nbad' = nbad + 1
  /\ NextRec
TNext == Consume \/ Finish
TSpec == TInit /\ [][TNext]_vars
Accepted == PrintT(<<"TRACE-SUMMARY", Len(Rec), TLCGet("stats").diameter>>)
AtEnd == l = Len(Rec) + 1 => PrintT(<<"TRACE-END", l - 1, nbad>>)
=============================================================================
