SPECIFICATION Spec
CONSTANTS
  Docs <- DocsQuick
  SelSets <- SelSetsQuick
INVARIANT NoPanic
INVARIANT Refines
INVARIANT StackIsOpenChain
INVARIANT ActiveHExact
INVARIANT OpenCountsExact
CHECK_DEADLOCK FALSE
