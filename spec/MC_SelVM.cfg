SPECIFICATION Spec
CONSTANTS
  Docs <- DocsQuick
  SelSets <- SelSetsQuick
INVARIANT NoPanic
INVARIANT Refines
INVARIANT StackIsOpenChain
INVARIANT ActiveHExact
INVARIANT OpenCountsExact
INVARIANT Emit
CHECK_DEADLOCK FALSE
