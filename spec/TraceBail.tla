---------------------------- MODULE TraceBail ----------------------------
(***************************************************************************)
(* C11, graceful bail-out (L0 contract BailOut).  Product record: the run  *)
(* with an injected failure and the failure-free run of the same           *)
(* configuration and chunking (both real).                                 *)
(*   [id, input, received (bytes passed to write() up to and including the *)
(*    failing call), kind ("handler" | "mem"), failk (kind of the failing  *)
(*    token's handler), p (start offset of the failing token; -1 unknown), *)
(*    q (sink length when the failing invocation started; -1 unknown),     *)
(*    removing (a handler was removing content at that moment), passthru,  *)
(*    gmem, ghandler, bail (contents appended by the bail-out handlers, in *)
(*    registration order), normal (sink of the failure-free run),          *)
(*    res, sink, nbo (bail-out handler invocations), boerr (error kinds    *)
(*    the bail-out handlers were given)]                                   *)
(***************************************************************************)
EXTENDS Naturals, Integers, Sequences, SequencesExt, TLC, Json, IOUtils

Rec == ndJsonDeserialize(IOEnv.TRACE)
VARIABLES l, nbad
vars == <<l, nbad>>

RECURSIVE Cat(_)
Cat(s) == IF s = <<>> THEN <<>> ELSE s[1] \o Cat(Tail(s))

Graceful(r) == (r.res = "err:mem" /\ r.gmem) \/ (r.res = "err:handler" /\ r.ghandler)
Tail0(r, p) == SubSeq(r.input, p + 1, r.received)       \* received input from offset p on

\* the contract: normally rewritten output for the processed prefix, then the bail-out handlers'
\* content, then every remaining received byte unmodified
Exact(r) == r.sink = SubSeq(r.normal, 1, r.q) \o Cat(r.bail) \o Tail0(r, r.p)
\* when q / p are not observable (memory failures): some split must work, and the rewritten part must be
\* a prefix of the failure-free output
Exists(r) == \E p \in 0..r.received :
   LET tail == Cat(r.bail) \o Tail0(r, p)  n == Len(r.sink) - Len(tail) IN
   n >= 0 /\ SubSeq(r.sink, n + 1, Len(r.sink)) = tail /\ IsPrefix(SubSeq(r.sink, 1, n), r.normal)

\* observers only: the rewritten part is the input itself, so "no byte lost" can be stated exactly: the raw tail starts
\* at or before the point the emitted part reached (the documented exception lets it repeat, nothing lets it skip)
NoLoss(r) == \E n \in 0..r.received : \E p \in 0..n : r.sink = SubSeq(r.input, 1, n) \o Cat(r.bail) \o Tail0(r, p)
\* known finding S19: exactly the bytes of an incomplete multi-byte character that ended an earlier write (held by the
\* text decoder, 1-3 non-ASCII bytes right before a write boundary) are missing, everything else is in place
SigS19(r) == \E n \in 0..r.received : \E p \in (n + 1)..(IF n + 3 < r.received THEN n + 3 ELSE r.received) :
               /\ r.sink = SubSeq(r.input, 1, n) \o Cat(r.bail) \o Tail0(r, p)
               /\ \E j \in 1..Len(r.ends) : r.ends[j] = p
               /\ \A i \in (n + 1)..p : r.input[i] >= 128

Verdict(r) ==
  IF "failed" \in DOMAIN r THEN "C11: the baseline run (no failure injected, no limit) failed: " \o r.failed ELSE
  IF r.res = "ok" THEN (IF r.nbo # 0 THEN "C11: bail-out handler ran although nothing failed" ELSE "ok")
  ELSE IF r.res = "panic" THEN "C11: panic"
  ELSE IF ~Graceful(r) THEN
       \* each flag recovers only its own error kind; ambiguity is never recovered; nothing is flushed
       (IF r.nbo # 0 THEN "C11: bail-out handler ran without a graceful bail-out"
        ELSE IF ~IsPrefix(r.sink, r.normal) THEN "C11: output was flushed although the error kind is not recovered"
        ELSE "ok")
  ELSE IF r.nbo # Len(r.bail) THEN "C11: bail-out handlers did not each run exactly once"
  ELSE IF \E i \in 1..Len(r.boerr) : r.boerr[i] # r.res THEN "C11: bail-out handler was given a different error"
  ELSE IF r.removing THEN "ok"      \* documented exception: content being removed at that moment
  ELSE IF r.passthru /\ r.failk # "tx" THEN
       \* observers only: sink followed by the input not yet written is the input itself (with the bail-out
       \* content at the bail-out point): no byte lost, none duplicated
       (IF \E p \in 0..r.received : r.sink = SubSeq(r.input, 1, p) \o Cat(r.bail) \o Tail0(r, p) THEN "ok"
        ELSE "C11: sink followed by the unwritten input is not the input (observer configuration)")
  ELSE IF r.kind = "handler" /\ r.failk = "tx" THEN
       \* documented exception: a text handler failing on a later chunk of a partly emitted node may repeat
       \* that node's already emitted part; nothing may be lost
       (IF r.passthru /\ ~NoLoss(r)
             THEN "C11: received input lost after a failing text handler (observer configuration)" \o (IF SigS19(r) THEN " [signature:S19]" ELSE "")
        ELSE IF ~Exists(r) THEN "C11: received input lost after a failing text handler"
        ELSE "ok")
  ELSE IF r.kind = "handler" /\ r.failk = "de" /\ r.q >= 0 THEN
       \* a failing end handler may already have appended (part of) its document-end content, which goes
       \* to the sink immediately; then the bail-out content; no input is left
       (IF \E n \in r.q..Len(r.normal) : r.sink = SubSeq(r.normal, 1, n) \o Cat(r.bail) THEN "ok"
        ELSE "C11: after a failing end handler the sink is not the complete output followed by the bail-out content")
  ELSE IF r.kind = "handler" /\ r.p >= 0 /\ r.q >= 0 THEN
       (IF Exact(r) THEN "ok" ELSE "C11: sink is not (normal output before the failing token) + (bail-out content) + (received input from the failing token on)")
  ELSE IF r.passthru /\ ~NoLoss(r)
       THEN "C11: sink followed by the unwritten input is not the input (observer configuration)" \o (IF SigS19(r) THEN " [signature:S19]" ELSE "")
  ELSE IF Exists(r) THEN "ok"
  ELSE "C11: sink is not (a prefix of the normal output) + (bail-out content) + (the remaining received input)"

TInit == l = 1 /\ nbad = 0
TNext == /\ l <= Len(Rec)
         /\ LET v == Verdict(Rec[l]) IN
            IF v = "ok" THEN UNCHANGED nbad ELSE PrintT(<<"BAD", Rec[l].id, 0, v>>) /\ nbad' = nbad + 1
         /\ l' = l + 1
TSpec == TInit /\ [][TNext]_vars
Accepted == PrintT(<<"TRACE-SUMMARY", Len(Rec), TLCGet("stats").diameter>>)
AtEnd == l = Len(Rec) + 1 => PrintT(<<"TRACE-END", l - 1, nbad>>)
=============================================================================
