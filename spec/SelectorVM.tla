----------------------------- MODULE SelectorVM -----------------------------
(***************************************************************************)
(* L2: lol-html's selector matching machine as built (src/selectors_vm):   *)
(*  - ast.rs: the selectors of all handlers are merged into one trie; a     *)
(*    node is identified by the path of (combinator, predicate) pairs from  *)
(*    the root ("hosting" = predicate equality among siblings); :not() is   *)
(*    flattened into negated leaves;                                         *)
(*  - compiler.rs / program.rs: one instruction per node; sibling nodes     *)
(*    form an address range; a branch = (match ids, jumps = children range, *)
(*    hereditary jumps = descendants range); a predicate is split into the   *)
(*    part decidable from the tag name and counters and the part that needs  *)
(*    the attributes;                                                        *)
(*  - mod.rs: exec_for_start_tag runs entry points, the parent's jumps, the  *)
(*    active hereditary jumps; without attributes first, and if an           *)
(*    instruction needs them it bails out with a recovery pointer            *)
(*    (set index, offset) and is resumed when the lexeme is there;           *)
(*  - stack.rs: open-element stack, per-item child counter, typed counter    *)
(*    map (one list of (count, level) per name), per-name open counts for    *)
(*    stray end tags, de-duplicated active hereditary jumps tagged with the  *)
(*    shallowest depth that introduced them, void / foreign self-closing.    *)
(* MC_SelVM checks, for every small document and selector set, that what    *)
(* this machine reports equals Selectors!Matches on the induced tree (C04,  *)
(* C05 at design level).                                                     *)
(***************************************************************************)
EXTENDS Naturals, Integers, Sequences, FiniteSets, TLC, Json, Selectors

CONSTANTS Docs,      \* set of documents (sequences of tags as in Selectors)
          SelSets    \* set of handler selector lists: sequence (match id = index) of selector lists
VARIABLES doc, sels, pc,
          stack,     \* open items: [name, jumps (seq of range ids), hjumps, cc (child counter)]
          rootcc,    \* child counter of the root
          typed,     \* typed counter map: name -> [items (seq of [cnt, idx]), cur ([cnt, idx])]
          opencnt,   \* per-name open-item counts
          activeH,   \* seq of <<range id, depth>>
          bail,      \* pending aux-info request: <<>> or [ctx, at (flat index), rp (<<set index, offset>>), wc]
          matched,   \* start-tag index -> set of match ids reported
          panic      \* an expect()/index failure in the machine
vars == <<doc, sels, pc, stack, rootcc, typed, opencnt, activeH, bail, matched, panic>>

\* ---- ast.rs: the trie ----------------------------------------------------------------------------------
\* all complex selectors, in registration order
AllCx(S) == LET RECURSIVE F(_, _, _)
                F(k, c, acc) == IF k > Len(S) THEN acc
                                ELSE IF c > Len(S[k]) THEN F(k + 1, 1, acc)
                                ELSE F(k, c + 1, Append(acc, S[k][c]))
            IN F(1, 1, <<>>)
RECURSIVE Dedup(_, _)
Dedup(s, acc) == IF s = <<>> THEN acc
                 ELSE Dedup(Tail(s), IF \E j \in 1..Len(acc) : acc[j] = Head(s) THEN acc ELSE Append(acc, Head(s)))
\* a range id is <<parent path, combinator>>; its instructions are the distinct one-step extensions, in first-appearance order
Instrs(S, rid) ==
  LET par == rid[1]  n == Len(par)
      c == SelectSeq(AllCx(S), LAMBDA cx : Len(cx) > n /\ SubSeq(cx, 1, n) = par /\ cx[n + 1].comb = rid[2])
  IN Dedup([j \in 1..Len(c) |-> SubSeq(c[j], 1, n + 1)], <<>>)
EntryRid == <<<<>>, "">>
MatchIds(S, p) == {k \in 1..Len(S) : \E c \in 1..Len(S[k]) : S[k][c] = p}
\* compile_descendants: None when the node has no such successors
JumpsOf(S, p) == IF Instrs(S, <<p, ">">>) = <<>> THEN <<>> ELSE << <<p, ">">> >>
HJumpsOf(S, p) == IF Instrs(S, <<p, " ">>) = <<>> THEN <<>> ELSE << <<p, " ">> >>

\* add_selector_components: flatten :not() into leaves with alternating polarity
RECURSIVE Leaves(_, _)
Leaves(comp, neg) ==
  IF comp = <<>> THEN <<>>
  ELSE LET s == Head(comp) IN
       (IF s.t = "not"
        THEN LET RECURSIVE A(_) A(k) == IF k > Len(s.args) THEN <<>> ELSE Leaves(s.args[k], ~neg) \o A(k + 1) IN A(1)
        ELSE <<[s |-> s, neg |-> neg]>>) \o Leaves(Tail(comp), neg)
OnTag(l) == l.s.t \in {"type", "univ", "nth"}
TagLeaves(p) == SelectSeq(Leaves(p[Len(p)].comp, FALSE), OnTag)
AttrLeaves(p) == SelectSeq(Leaves(p[Len(p)].comp, FALSE), LAMBDA l : ~OnTag(l))
UsesNthOfType(S) == \E j \in 1..Len(AllCx(S)) : \E m \in 1..Len(AllCx(S)[j]) :
                      \E q \in 1..Len(Leaves(AllCx(S)[j][m].comp, FALSE)) :
                        LET l == Leaves(AllCx(S)[j][m].comp, FALSE)[q] IN l.s.t = "nth" /\ l.s.oftype

\* ---- stack.rs -------------------------------------------------------------------------------------------
Key(n) == Low(n)
TypedAdd(tm, name, index) ==
  IF name \notin DOMAIN tm THEN tm @@ (name :> [items |-> <<>>, cur |-> [cnt |-> 1, idx |-> index]])
  ELSE IF tm[name].cur.idx = index THEN [tm EXCEPT ![name].cur.cnt = @ + 1]
  ELSE [tm EXCEPT ![name] = [items |-> Append(@.items, @.cur), cur |-> [cnt |-> 1, idx |-> index]]]
RECURSIVE Unwind(_, _)
\* pop_to for one list: <<>> when the list disappears
Unwind(cl, index) == IF cl.cur.idx <= index THEN cl
                     ELSE IF cl.items = <<>> THEN <<>>
                     ELSE Unwind([items |-> SubSeq(cl.items, 1, Len(cl.items) - 1), cur |-> cl.items[Len(cl.items)]], index)
TypedPopTo(tm, index) == LET keep == {n \in DOMAIN tm : Unwind(tm[n], index) # <<>>} IN [n \in keep |-> Unwind(tm[n], index)]
\* get(): the counter for this name at this level, 0 = None
TypedGet(tm, name, index) == IF name \in DOMAIN tm /\ tm[name].cur.idx = index THEN tm[name].cur.cnt ELSE 0

IsVoid(t) == Low(t.n) \in Voids
\* nth.has_index
HasIndex(a, b, idx) == Nth(a, b, idx)

\* ---- program.rs: predicates against the machine's own state ----------------------------------------------
LeafTag(l, t, cum, ty) ==
  LET v == CASE l.s.t = "type" -> Key(t.n) = Key(l.s.n)
             [] l.s.t = "univ" -> TRUE
             [] l.s.t = "nth"  -> IF l.s.oftype THEN HasIndex(l.s.a, l.s.b, ty) ELSE HasIndex(l.s.a, l.s.b, cum)
  IN v # l.neg
\* the expect() in the nth-of-type closure
LeafPanics(l, ty) == l.s.t = "nth" /\ l.s.oftype /\ ty = 0
LeafAttr(l, t) ==
  LET s == l.s
      v == CASE s.t = "id"    -> HasAttr(t, b_id) /\ AttrValue(t, b_id) = s.v
             [] s.t = "class" -> HasAttr(t, b_class) /\ HasWord(s.v, AttrValue(t, b_class), FALSE)
             [] s.t = "attr"  -> HasAttr(t, s.n) /\ (s.op = "" \/ AttrOpMatches(s.op, AttrValue(t, s.n), s.v, s.cs = "i"))
  IN v # l.neg
TagPart(p, t, cum, ty) == \A j \in 1..Len(TagLeaves(p)) : LeafTag(TagLeaves(p)[j], t, cum, ty)
AttrPart(p, t) == \A j \in 1..Len(AttrLeaves(p)) : LeafAttr(AttrLeaves(p)[j], t)
PartPanics(p, ty) == \E j \in 1..Len(TagLeaves(p)) : LeafPanics(TagLeaves(p)[j], ty)

\* ---- mod.rs: execution -----------------------------------------------------------------------------------
\* the instruction sets of one start tag, in execution order: entry points, the parent's jumps, active hereditary jumps
SetsFor(st, ah) == <<EntryRid>> \o (IF st = <<>> THEN <<>> ELSE st[Len(st)].jumps) \o [j \in 1..Len(ah) |-> ah[j][1]]
\* flattened: [set (1-based index in SetsFor), off (0-based offset in the range), node]
Flat(S, L) == LET RECURSIVE F(_, _, _)
                  F(j, o, acc) == IF j > Len(L) THEN acc
                                  ELSE IF o >= Len(Instrs(S, L[j])) THEN F(j + 1, 0, acc)
                                  ELSE F(j, o + 1, Append(acc, [set |-> j, off |-> o, node |-> Instrs(S, L[j])[o + 1]]))
              IN F(1, 0, <<>>)
\* add_execution_branch
AddBranch(S, ctx, p, wc) ==
  [matched |-> ctx.matched \cup MatchIds(S, p),
   jumps   |-> IF wc THEN ctx.jumps \o JumpsOf(S, p) ELSE ctx.jumps,
   hjumps  |-> IF wc THEN ctx.hjumps \o HJumpsOf(S, p) ELSE ctx.hjumps]
Ctx0 == [matched |-> {}, jumps |-> <<>>, hjumps |-> <<>>]

\* try_exec_*_without_attrs over the flat list from index k: [ctx, at (0 = completed), panic]
RECURSIVE TryNoAttrs(_, _, _, _, _, _, _, _)
TryNoAttrs(S, F, k, ctx, t, cum, ty, wc) ==
  IF k > Len(F) THEN [ctx |-> ctx, at |-> 0, panic |-> FALSE]
  ELSE LET p == F[k].node IN
       IF PartPanics(p, ty) THEN [ctx |-> ctx, at |-> 0, panic |-> TRUE]
       ELSE IF ~TagPart(p, t, cum, ty) THEN TryNoAttrs(S, F, k + 1, ctx, t, cum, ty, wc)
       ELSE IF AttrLeaves(p) = <<>> THEN TryNoAttrs(S, F, k + 1, AddBranch(S, ctx, p, wc), t, cum, ty, wc)
       ELSE [ctx |-> ctx, at |-> k, panic |-> FALSE]
\* exec_*_with_attrs over the entries selected by a recovery pointer <<set, offset>>
RECURSIVE ExecFull(_, _, _, _, _, _, _, _)
ExecFull(S, F, k, ctx, t, cum, ty, wc) ==
  IF k > Len(F) THEN [ctx |-> ctx, panic |-> FALSE]
  ELSE LET p == F[k].node IN
       IF PartPanics(p, ty) THEN [ctx |-> ctx, panic |-> TRUE]
       ELSE ExecFull(S, F, k + 1, IF TagPart(p, t, cum, ty) /\ AttrPart(p, t) THEN AddBranch(S, ctx, p, wc) ELSE ctx, t, cum, ty, wc)
From(F, rp) == SelectSeq(F, LAMBDA e : (e.set = rp[1] /\ e.off >= rp[2]) \/ e.set > rp[1])

\* ---- the machine -------------------------------------------------------------------------------------------
Init == /\ doc \in Docs /\ sels \in SelSets /\ pc = 1
        /\ stack = <<>> /\ rootcc = 0 /\ typed = <<>> /\ opencnt = <<>> /\ activeH = <<>>
        /\ bail = <<>> /\ matched = <<>> /\ panic = FALSE

Cum(st, rc) == IF st = <<>> THEN rc ELSE st[Len(st)].cc

\* push_item (and the report of the matched ids)
Finalize(st, ctx, wc) ==
  /\ matched' = matched @@ (pc :> ctx.matched)
  /\ pc' = pc + 1 /\ bail' = <<>>
  /\ IF wc THEN
          LET d == Len(st)  nm == Key(doc[pc].n)
              RECURSIVE Add(_, _)
              Add(hs, ah) == IF hs = <<>> THEN ah
                             ELSE Add(Tail(hs), IF \E j \in 1..Len(ah) : ah[j][1] = Head(hs) THEN ah ELSE Append(ah, <<Head(hs), d>>))
          IN /\ stack' = Append(st, [name |-> nm, jumps |-> ctx.jumps, hjumps |-> ctx.hjumps, cc |-> 0])
             /\ opencnt' = IF nm \in DOMAIN opencnt THEN [opencnt EXCEPT ![nm] = @ + 1] ELSE opencnt @@ (nm :> 1)
             /\ activeH' = Add(ctx.hjumps, activeH)
     ELSE stack' = st /\ UNCHANGED <<opencnt, activeH>>

\* exec_for_start_tag
StartTag ==
  /\ ~panic /\ bail = <<>> /\ pc <= Len(doc) /\ doc[pc].k = "st"
  /\ LET t == doc[pc]
         \* add_child
         st1 == IF stack = <<>> THEN stack ELSE [stack EXCEPT ![Len(stack)].cc = @ + 1]
         rc1 == IF stack = <<>> THEN rootcc + 1 ELSE rootcc
         tm1 == IF UsesNthOfType(sels) THEN TypedAdd(typed, Key(t.n), Len(stack)) ELSE typed
         cum == Cum(st1, rc1)
         ty  == IF UsesNthOfType(sels) THEN TypedGet(tm1, Key(t.n), Len(stack)) ELSE 0
         F   == Flat(sels, SetsFor(st1, activeH))
     IN /\ rootcc' = rc1 /\ typed' = tm1
        /\ IF t.ns = "html" THEN
             \* Push / PopImmediately: without attributes first
             LET wc == ~IsVoid(t)
                 r == TryNoAttrs(sels, F, 1, Ctx0, t, cum, ty, wc) IN
             IF r.panic THEN /\ panic' = TRUE /\ stack' = st1 /\ UNCHANGED <<doc, sels, pc, opencnt, activeH, bail, matched>>
             ELSE IF r.at = 0 THEN
                  /\ Finalize(st1, r.ctx, wc)
                  /\ UNCHANGED <<doc, sels, panic>>
             ELSE \* bailout: at_addr, recovery_point = addr - start + 1 in the same set
                  /\ bail' = [ctx |-> r.ctx, at |-> r.at, rp |-> <<F[r.at].set, F[r.at].off + 1>>, wc |-> wc, cum |-> cum, ty |-> ty]
                  /\ stack' = st1
                  /\ UNCHANGED <<doc, sels, pc, opencnt, activeH, matched, panic>>
           ELSE
             \* PushIfNotSelfClosing: exec_after_immediate_aux_info_request
             LET wc == ~t.sc
                 r == ExecFull(sels, F, 1, Ctx0, t, cum, ty, wc) IN
             IF r.panic THEN /\ panic' = TRUE /\ stack' = st1 /\ UNCHANGED <<doc, sels, pc, opencnt, activeH, bail, matched>>
             ELSE /\ Finalize(st1, r.ctx, wc)
                  /\ UNCHANGED <<doc, sels, panic>>

\* the aux-info request is served (same tag, nothing else happened in between)
Complete ==
  /\ ~panic /\ bail # <<>>
  /\ LET t == doc[pc]
         F == Flat(sels, SetsFor(stack, activeH))
         p == F[bail.at].node
         \* complete_instr_execution_with_attrs: only the attribute part is evaluated
         c1 == IF AttrPart(p, t) THEN AddBranch(sels, bail.ctx, p, bail.wc) ELSE bail.ctx
         r == ExecFull(sels, From(F, bail.rp), 1, c1, t, bail.cum, bail.ty, bail.wc)
     IN IF r.panic THEN panic' = TRUE /\ UNCHANGED <<doc, sels, pc, stack, rootcc, typed, opencnt, activeH, bail, matched>>
        ELSE /\ Finalize(stack, r.ctx, bail.wc)
             /\ UNCHANGED <<doc, sels, rootcc, typed, panic>>

\* exec_for_end_tag -> pop_up_to
EndTag ==
  /\ ~panic /\ bail = <<>> /\ pc <= Len(doc) /\ doc[pc].k = "et"
  /\ pc' = pc + 1
  /\ LET nm == Key(doc[pc].n) IN
     IF nm \notin DOMAIN opencnt THEN UNCHANGED <<stack, typed, opencnt, activeH>>
     ELSE LET idx == CHOOSE i \in 1..Len(stack) : stack[i].name = nm /\ \A j \in (i + 1)..Len(stack) : stack[j].name # nm
              index == idx - 1      \* 0-based rposition
              gone == [j \in 1..(Len(stack) - index) |-> stack[index + j].name]
              RECURSIVE Dec(_, _)
              Dec(g, oc) == IF g = <<>> THEN oc
                            ELSE Dec(Tail(g), IF oc[Head(g)] = 1 THEN [n \in DOMAIN oc \ {Head(g)} |-> oc[n]] ELSE [oc EXCEPT ![Head(g)] = @ - 1])
          IN /\ typed' = IF UsesNthOfType(sels) THEN TypedPopTo(typed, index) ELSE typed
             /\ activeH' = SelectSeq(activeH, LAMBDA e : e[2] < index)
             /\ stack' = SubSeq(stack, 1, index)
             /\ opencnt' = Dec(gone, opencnt)
  /\ UNCHANGED <<doc, sels, rootcc, bail, matched, panic>>

Next == StartTag \/ Complete \/ EndTag
Spec == Init /\ [][Next]_vars

\* ---- properties ---------------------------------------------------------------------------------------------
Done == pc > Len(doc) /\ bail = <<>>
NoPanic == ~panic
\* every :not() argument is a single simple selector: known finding S2 (flattening) cannot show
S2Free(S) == \A j \in 1..Len(AllCx(S)) : \A m \in 1..Len(AllCx(S)[j]) : \A q \in 1..Len(AllCx(S)[j][m].comp) :
               LET s == AllCx(S)[j][m].comp[q] IN
               s.t = "not" => \A a \in 1..Len(s.args) : Len(s.args[a]) = 1 /\ s.args[a][1].t # "not"
\* what the machine reports is the CSS match relation on the induced tree
Refines == Done =>
  LET tr == Tree(doc) IN
  \A i \in StartTags(doc) :
     /\ i \in DOMAIN matched
     /\ matched[i] = {k \in 1..Len(sels) : Matches(doc, tr, i, sels[k], "kf-S2")}
     /\ (S2Free(sels) => matched[i] = {k \in 1..Len(sels) : Matches(doc, tr, i, sels[k], "css")})
\* every (document, selector set) of the instance, printed once for replay in the real code (job c04)
\* (documents of up to 3 tags and the hand-picked longer ones; the 4-tag documents of the thorough instance are only model-checked)
Emit == (Done /\ (Len(doc) <= 3 \/ Len(doc) >= 5)) => PrintT(<<"REPLAY", ToJson([vdoc |-> doc, sels |-> sels])>>)
\* the stack is the chain of open elements of the induced tree
StackIsOpenChain ==
  (bail = <<>> /\ ~panic) =>
  LET tr == Walk(doc, 1, <<>>, [i \in 1..Len(doc) |-> [anc |-> <<>>]])
      open == IF pc <= Len(doc) THEN tr[pc].anc ELSE <<>> IN
  pc <= Len(doc) => /\ Len(stack) = Len(open)
                    /\ \A j \in 1..Len(stack) : stack[j].name = Key(doc[open[j]].n)
\* the de-duplicated list is exactly the distinct hereditary ranges of the open items with their shallowest depth
ActiveHExact ==
  (bail = <<>> /\ ~panic) =>
  /\ \A j \in 1..Len(stack) : \A h \in 1..Len(stack[j].hjumps) :
        \E e \in 1..Len(activeH) : activeH[e][1] = stack[j].hjumps[h] /\ activeH[e][2] <= j - 1
  /\ \A e \in 1..Len(activeH) : /\ activeH[e][2] + 1 <= Len(stack)
                                /\ \E h \in 1..Len(stack[activeH[e][2] + 1].hjumps) : stack[activeH[e][2] + 1].hjumps[h] = activeH[e][1]
  /\ \A e1, e2 \in 1..Len(activeH) : activeH[e1][1] = activeH[e2][1] => e1 = e2
\* open_name_counts is the multiset of names on the stack
OpenCountsExact ==
  /\ \A n \in DOMAIN opencnt : opencnt[n] = Cardinality({j \in 1..Len(stack) : stack[j].name = n}) /\ opencnt[n] > 0
  /\ \A j \in 1..Len(stack) : (bail = <<>> /\ ~panic) => stack[j].name \in DOMAIN opencnt
=============================================================================
