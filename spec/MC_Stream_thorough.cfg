SPECIFICATION Spec
CONSTANTS
  Doc <- DocB
  Limits <- LimitsB
  Prealloc = 4
  ItemSize = 2
  MinCap = 2
  FailPoints = {0, 1, 2, 3, 4, 5, 6, 7, 8, 9, 10, 11}
  BailCounts = {0, 2}
VIEW View
INVARIANT Refines
INVARIANT WhyNot
INVARIANT Tiling
INVARIANT HeldIsOneLexeme
INVARIANT Accounting
CHECK_DEADLOCK FALSE
