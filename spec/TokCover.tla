------------------------------ MODULE TokCover ------------------------------
(***************************************************************************)
(* Test generation from the specification (spec -> implementation): a walk  *)
(* over the control states of the tokenizer table Tok.  The state is an     *)
(* input prefix and the machine after it; a step appends one word of a      *)
(* small vocabulary.  VIEW keeps one representative prefix per distinct      *)
(* control state (tokenizer state, text mode, "last start tag is the        *)
(* appropriate one", CDATA permission, namespace, unfinished-token kind),   *)
(* so TLC's breadth-first search yields a shortest witness for every         *)
(* reachable control state.  Each one is printed as a REPLAY line; the       *)
(* harness (jobs c03 / c14) extends every witness by every word and a set    *)
(* of closing suffixes, i.e. exercises every (control state, word)           *)
(* transition of the table in the real lexer and tag scanner, and the        *)
(* result is judged against Tok by TraceWhatwg / TraceTok.                   *)
(***************************************************************************)
EXTENDS Naturals, Sequences, TLC, Json, Tok

CONSTANTS Words, MaxWords, Special
VARIABLES inp, sm, nw
vars == <<inp, sm, nw>>

Init == inp = <<>> /\ sm = InitSm("sim", FALSE, "Data", <<>>, FALSE) /\ nw = 0
Next == /\ nw < MaxWords /\ ~sm.done
        /\ \E w \in Words :
             /\ inp' = inp \o w
             /\ sm' = [AfterPrefix(inp \o w, "sim", FALSE) EXCEPT !.toks = <<>>]   \* emitted tokens are not part of the control state
             /\ nw' = nw + 1
Spec == Init /\ [][Next]_vars

\* the name typed so far matters only when it is one the table or the simulator treats specially
CurName == IF sm.tok.k \in {"st", "et"} /\ sm.tok.nm[1] < Len(inp)
           THEN LowerSeq(SubSeq(inp, sm.tok.nm[1] + 1, IF sm.tok.nm[2] > sm.tok.nm[1] THEN sm.tok.nm[2] ELSE Len(inp))) ELSE <<>>
\* the temporary buffer of the script double-escape states: [tmp, end of input)
TmpName == IF sm.st \in {"scriptdescstart", "scriptdescend"} /\ sm.tmp < Len(inp) THEN LowerSeq(SubSeq(inp, sm.tmp + 1, Len(inp))) ELSE <<>>
NameClass == IF CurName \in Special THEN CurName ELSE IF TmpName \in Special THEN TmpName ELSE <<>>
Control == <<sm.st, sm.tt, sm.cdataOK, Cur(sm.tb), Len(sm.tb.ns), sm.tok.k, sm.tok.sc, Len(sm.tok.attrs) > 0,
             IF sm.last \in Special THEN sm.last ELSE <<>>, NameClass, sm.tmp = 0,
             \* the text state an end-tag attempt returns to (plain or escaped script data, RCDATA, RAWTEXT)
             IF sm.st \in {"textlt", "textendtagopen", "textendtagname"} THEN sm.ret ELSE "">>
View == Control

Emit == PrintT(<<"REPLAY", ToJson([input |-> inp, st |-> sm.st, tt |-> sm.tt, cls |-> NameClass, ns |-> Cur(sm.tb), k |-> sm.tok.k, ret |-> sm.ret])>>)
=============================================================================
