SPECIFICATION Spec
CONSTANTS
  Doc <- DocA
  Limits <- LimitsA
  Prealloc = 0
  ItemSize = 2
  MinCap = 2
  FailPoints = {0, 1, 2, 3, 4, 5, 6, 7, 8}
  BailCounts = {0, 2}
VIEW View
INVARIANT Refines
INVARIANT WhyNot
INVARIANT Tiling
INVARIANT HeldIsOneLexeme
INVARIANT Accounting
CHECK_DEADLOCK FALSE
