--------------------------- MODULE TraceWhatwg ---------------------------
(***************************************************************************)
(* C03.  L0 reference: the WHATWG tokenizer (Tok.tla) driven by a real     *)
(* tree builder.  The tree builder's answers (which tokenizer state        *)
(* follows each tag, whether CDATA is allowed) are a witnessed function    *)
(* supplied by html5ever 0.39's TreeBuilder -- the oracle the property     *)
(* names; the tokenizer state machine itself is the TLA+ specification.    *)
(* Verdict table: reference = lol-html -> ok;                              *)
(*   reference # lol-html and reference = html5ever's own tokens -> BAD;   *)
(*   reference # html5ever's tokens -> inconclusive (reported, no alarm).  *)
(* Record: [id, input (ASCII, no & CR NUL), wit, h5 (html5ever tokens),    *)
(*   obs : seq of [variant, strict, flags, res, toks (lol-html tokens)]]   *)
(***************************************************************************)
EXTENDS Naturals, Integers, Sequences, TLC, Json, IOUtils, Tok

Rec == ndJsonDeserialize(IOEnv.TRACE)
VARIABLES l, nbad
vars == <<l, nbad>>

LowSeq(s) == [i \in 1..Len(s) |-> Lower(s[i])]
\* first occurrence of every attribute name
RECURSIVE Uniq(_, _)
Uniq(attrs, seen) == IF attrs = <<>> THEN <<>>
                     ELSE IF attrs[1][1] \in seen THEN Uniq(Tail(attrs), seen)
                     ELSE <<attrs[1]>> \o Uniq(Tail(attrs), seen \cup {attrs[1][1]})
\* merge adjacent text
RECURSIVE Merge(_)
Merge(ts) == IF Len(ts) < 2 THEN ts
             ELSE IF ts[1][1] = "tx" /\ ts[2][1] = "tx" THEN Merge(<<<<"tx", ts[1][2] \o ts[2][2]>>>> \o SubSeq(ts, 3, Len(ts)))
             ELSE <<ts[1]>> \o Merge(Tail(ts))
NonEmpty(ts) == SelectSeq(ts, LAMBDA t : t[1] # "tx" \/ t[2] # <<>>)

\* shape of the reference tokens (byte ranges into the input)
RefShape(b, toks) ==
  LET conv(t) ==
        CASE t.k = "st" -> <<"st", LowSeq(SubSeq(b, t.nm[1] + 1, t.nm[2])),
                             Uniq([i \in 1..Len(t.attrs) |-> <<LowSeq(SubSeq(b, t.attrs[i][1] + 1, t.attrs[i][2])), SubSeq(b, t.attrs[i][3] + 1, t.attrs[i][4])>>], {}), t.sc>>
          [] t.k = "et" -> <<"et", LowSeq(SubSeq(b, t.nm[1] + 1, t.nm[2]))>>
          [] t.k = "cm" -> <<"cm", SubSeq(b, t.nm[1] + 1, t.nm[2])>>
          [] t.k = "dt" -> <<"dt", t.attrs[1][3] = 1, LowSeq(SubSeq(b, t.attrs[1][1] + 1, t.attrs[1][2])),
                             t.attrs[2][3] = 1, SubSeq(b, t.attrs[2][1] + 1, t.attrs[2][2]),
                             t.attrs[3][3] = 1, SubSeq(b, t.attrs[3][1] + 1, t.attrs[3][2])>>
          [] t.k = "tx" -> <<"tx", SubSeq(b, t.s + 1, t.e)>>
      nr == SelectSeq(toks, LAMBDA t : t.k # "raw")
  IN NonEmpty(Merge([i \in 1..Len(nr) |-> conv(nr[i])]))

\* shape of an observed token list (lol-html or html5ever), strings as code points
ObsShape(toks, want) ==
  LET conv(t) ==
        CASE t.k = "st" -> <<"st", t.name, Uniq([i \in 1..Len(t.attrs) |-> <<t.attrs[i][1], t.attrs[i][2]>>], {}), t.sc>>
          [] t.k = "et" -> <<"et", t.name>>
          [] t.k = "cm" -> <<"cm", t.text>>
          [] t.k = "dt" -> <<"dt", t.name.has, t.name.v, t.pub.has, t.pub.v, t.sys.has, t.sys.v>>
          [] t.k = "tx" -> <<"tx", t.text>>
      sel == SelectSeq(toks, LAMBDA t : t.k \in want)
  IN NonEmpty(Merge([i \in 1..Len(sel) |-> conv(sel[i])]))

\* which token kinds a capture-flag set delivers (TEXT 1, COMMENTS 2, START 4, END 8, DOCTYPES 16)
Bit(f, b) == (f \div b) % 2 = 1
Want(f) == (IF Bit(f, 1) THEN {"tx"} ELSE {}) \cup (IF Bit(f, 2) THEN {"cm"} ELSE {}) \cup (IF Bit(f, 4) THEN {"st"} ELSE {})
           \cup (IF Bit(f, 8) THEN {"et"} ELSE {}) \cup (IF Bit(f, 16) THEN {"dt"} ELSE {})
Restrict(shape, want) == SelectSeq(shape, LAMBDA t : t[1] \in want)

TextSwitchers == {n_textarea, n_title, n_plaintext, n_script, n_style, n_iframe, n_xmp, n_noembed, n_noframes, n_noscript}
\* strict mode may refuse only after a select / frameset start tag
MayRefuse(ref) == \E i \in 1..Len(ref) : ref[i][1] = "st" /\ ref[i][2] \in {n_select, n_frameset}

\* known finding S17: lol-html delivered a bogus comment "[CDATA[...": a CDATA section that the standard
\* allows (adjusted current node is an SVG / MathML element, here an integration point) was not recognised
cCDATA == <<91, 67, 68, 65, 84, 65, 91>>
HasCdataComment(o) == \E i \in 1..Len(o.toks) : o.toks[i].k = "cm" /\ Len(o.toks[i].text) >= 7 /\ SubSeq(o.toks[i].text, 1, 7) = cCDATA
\* ... and that is the whole difference: walking both streams, they agree except where lol-html has such a comment
\* "[CDATA[x]]" and the reference has the text x (possibly merged with neighbouring text)
IsCdataCm(t) == t[1] = "cm" /\ Len(t[2]) >= 9 /\ SubSeq(t[2], 1, 7) = cCDATA /\ SubSeq(t[2], Len(t[2]) - 1, Len(t[2])) = <<93, 93>>
Inner(t) == SubSeq(t[2], 8, Len(t[2]) - 2)
PrefixOf(a, b) == Len(a) <= Len(b) /\ SubSeq(b, 1, Len(a)) = a
RestTx(b, n) == IF n = Len(b[2]) THEN <<>> ELSE << <<"tx", SubSeq(b[2], n + 1, Len(b[2]))>> >>
RECURSIVE Expl(_, _)
Expl(g, e) ==
  IF g = <<>> THEN e = <<>>
  ELSE LET a == Head(g) IN
       IF IsCdataCm(a) /\ Inner(a) = <<>> /\ (e = <<>> \/ Head(e) # a) THEN Expl(Tail(g), e)
       ELSE IF e = <<>> THEN FALSE
       ELSE LET b == Head(e) IN
            IF a = b THEN Expl(Tail(g), Tail(e))
            ELSE IF a[1] = "tx" /\ b[1] = "tx" /\ PrefixOf(a[2], b[2]) THEN Expl(Tail(g), RestTx(b, Len(a[2])) \o Tail(e))
            ELSE IF IsCdataCm(a) /\ b[1] = "tx" /\ PrefixOf(Inner(a), b[2]) THEN Expl(Tail(g), RestTx(b, Len(Inner(a))) \o Tail(e))
            ELSE FALSE
SigS17x(o, got, exp) == HasCdataComment(o) /\ Expl(got, exp)
\* every tag is announced to the controller (where selector matching runs) exactly once, as what it is: o.hints
\* is the sequence of TransformController::handle_start_tag / handle_end_tag calls (name known when hashable);
\* this is the observable counterpart of ModeSwitch!MatchedAll
HintsOk(ref, o) ==
  LET tags == SelectSeq(ref, LAMBDA t : t[1] \in {"st", "et"}) IN
  \* (a document that ends inside a tag has one more announcement in scanner mode: the tag was announced at the
  \* end of its name and never became a token)
  /\ Len(o.hints) \in {Len(tags), Len(tags) + 1}
  /\ \A i \in 1..Len(tags) : o.hints[i][1] = tags[i][1] /\ (o.hints[i][2] = <<>> \/ o.hints[i][2] = tags[i][2])
\* "ok" | "inconclusive" | "C03: ..." (a violation)
ObsVerdict(r, ref, h5s, o) ==
  LET want == Want(o.flags)  exp == Restrict(ref, want)  got == ObsShape(o.toks, want) IN
  IF o.res = "err:ambiguity" THEN
       (IF ~o.strict THEN "C03: ambiguity error in non-strict mode"
        ELSE IF ~MayRefuse(ref) THEN (IF ref = h5s THEN "C03: strict mode refused outside select / frameset" ELSE "inconclusive")
        ELSE "ok")
  ELSE IF o.res # "ok" THEN "C03: run failed: " \o o.res
  \* the WHATWG claim is made for strict-mode runs; a non-strict run is only required to equal the
  \* successful strict run (StrictSame)
  ELSE IF ~o.strict THEN "ok"
  ELSE IF (got = exp \/ got = NonEmpty(Merge(exp))) /\ ~HintsOk(ref, o) /\ ref = h5s
       THEN "C03: a tag was not announced to selector matching exactly once as what it is (" \o o.variant \o ")"
  ELSE IF got = exp THEN "ok"
  \* text-only / comment-only captures merge text across dropped tokens: compare after the same merge
  ELSE IF got = NonEmpty(Merge(exp)) THEN "ok"
  ELSE IF ref = h5s THEN "C03: token stream differs from the WHATWG tokenization (" \o o.variant \o ")" \o (IF SigS17x(o, got, exp) THEN " [signature:S17]" ELSE "")
  ELSE "inconclusive"

RECURSIVE Fold(_, _, _, _, _)
Fold(r, ref, h5s, i, acc) ==
  IF i > Len(r.obs) THEN acc
  ELSE LET v == ObsVerdict(r, ref, h5s, r.obs[i]) IN
       IF v = "ok" THEN Fold(r, ref, h5s, i + 1, acc)
       ELSE IF v = "inconclusive" THEN Fold(r, ref, h5s, i + 1, IF acc = "ok" THEN v ELSE acc)
       ELSE v

\* a strict run that succeeds is identical to the non-strict run
StrictSame(r) == \A i, j \in 1..Len(r.obs) :
   (r.obs[i].flags = r.obs[j].flags /\ r.obs[i].cuts = r.obs[j].cuts /\ r.obs[i].res = "ok" /\ r.obs[j].res = "ok") => (r.obs[i].toks = r.obs[j].toks /\ r.obs[i].hints = r.obs[j].hints)

\* known finding S3: the divergence happens while html5ever's tree builder is inside a <template> that has
\* seen a table-structure tag (col / colgroup / caption / tbody / tr / td ...) -- structural signature
TableStruct == {n_col, n_colgroup, n_caption, n_tbody, n_thead, n_tfoot, n_tr, n_td, n_th, n_table, n_frameset}
SigS3(ref) == \E i, j \in 1..Len(ref) : i < j /\ ref[i][1] = "st" /\ ref[i][2] = n_template /\ ref[j][1] = "st" /\ ref[j][2] \in TableStruct

Verdict(r) ==
  LET ref == RefShape(r.input, TokenizeWit(r.input, r.wit).toks)
      h5s == ObsShape(r.h5, {"st", "et", "cm", "dt", "tx"})
      v == Fold(r, ref, h5s, 1, "ok")
      \* "ambiguity is refused", decided against lol-html's designed guard (L1, TreeSim: a text-mode-switching start tag
      \* inside select, inside template in select, in or after frameset).  The witnessed tree builder cannot decide this
      \* half: html5ever 0.39 follows the 2025 standard, which has no "in select" insertion mode any more, so with it
      \* nothing inside select is ambiguous.
      simErr == Tokenize(r.input, "sim", TRUE).err # ""
      GuardBad(o) == o.strict /\ ((o.res = "ok" /\ simErr) \/ (o.res = "err:ambiguity" /\ ~simErr))
  IN IF v = "ok" /\ \E i \in 1..Len(r.obs) : GuardBad(r.obs[i])
          THEN (IF simErr THEN "C03: strict mode did not refuse a text-mode start tag inside select / template in select / frameset (designed guard, TreeSim)"
                ELSE "C03: strict mode refused although the designed guard (TreeSim) sees no ambiguity")
     ELSE IF v = "ok" /\ ~StrictSame(r) THEN "C03: a strict run that succeeds differs from the non-strict run"
     ELSE IF v = "ok" THEN "ok"
     ELSE IF v = "inconclusive" THEN "inconclusive"
     ELSE v \o (IF SigS3(ref) THEN " [signature:S3]" ELSE "")

TInit == l = 1 /\ nbad = 0
TNext == /\ l <= Len(Rec)
         /\ LET v == Verdict(Rec[l]) IN
            IF v = "ok" THEN UNCHANGED nbad
            ELSE IF v = "inconclusive" THEN PrintT(<<"INFO", Rec[l].id, "inconclusive">>) /\ UNCHANGED nbad
            ELSE PrintT(<<"BAD", Rec[l].id, 0, v>>) /\ nbad' = nbad + 1
         /\ l' = l + 1
TSpec == TInit /\ [][TNext]_vars
Accepted == PrintT(<<"TRACE-SUMMARY", Len(Rec), TLCGet("stats").diameter>>)
AtEnd == l = Len(Rec) + 1 => PrintT(<<"TRACE-END", l - 1, nbad>>)
=============================================================================
