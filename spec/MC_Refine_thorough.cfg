SPECIFICATION Spec
CONSTANTS
  Inputs <- InputsThorough
INVARIANT Refines
INVARIANT RefinesParts
INVARIANT Tiling
INVARIANT LowLatency
CHECK_DEADLOCK FALSE
