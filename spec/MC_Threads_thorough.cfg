SPECIFICATION Spec
CONSTANTS
  Threads = {1, 2}
  MaxLen = 5
INVARIANT Isolation
INVARIANT PrintSchedules
CHECK_DEADLOCK FALSE
