------------------------------- MODULE Parser -------------------------------
(***************************************************************************)
(* L2: the chunked lexer as lol-html implements it, on top of the          *)
(* tokenizer table Tok.tla:                                                *)
(*  - the state machine only sees the current chunk = the unconsumed tail  *)
(*    of earlier input followed by the new bytes; every position it keeps  *)
(*    is RELATIVE to the start of that chunk;                              *)
(*  - a look-ahead sequence ("--", "DOCTYPE", "[CDATA[", "PUBLIC",         *)
(*    "SYSTEM", "]]>") that could still match when the chunk ends makes    *)
(*    the machine break and wait for more input (break_on_end_of_input);   *)
(*  - at the end of a chunk pending text is emitted (eoc arms), the        *)
(*    consumed byte count is the start of the unfinished construct, and    *)
(*    every stored position is re-based by that count (Align);             *)
(*  - emitted tokens carry absolute document offsets (base + relative).    *)
(* The environment chooses where every write() ends.  MC_Refine checks     *)
(* that for EVERY chunking the emitted token stream equals the one-shot    *)
(* reference Tok!Tokenize up to the fragmentation of text, that the bytes  *)
(* held back are only the unfinished construct, and that consumed + held   *)
(* tiles the input (design-level C02 / C01 / C09).                         *)
(***************************************************************************)
EXTENDS Naturals, Integers, Sequences, SequencesExt, Tok

CONSTANT Inputs          \* set of documents (byte sequences)
VARIABLES input, fed, base, sm, out, done
vars == <<input, fed, base, sm, out, done>>

TextStates == {"data", "rcdata", "rawtext", "scriptdata", "plaintext", "cdata", "scriptesc", "scriptescdash", "scriptescdashdash",
               "scriptescstart", "scriptescstartdash", "scriptdesc", "scriptdescdash", "scriptdescdashdash", "scriptdesclt"}

\* could seq still match at index i if more input followed the chunk?
Partial(chunk, i, seq, ci) ==
  LET avail == Len(chunk) - i + 1 IN
  /\ avail < Len(seq) /\ avail >= 0
  /\ \A j \in 1..avail : IF ci THEN Lower(chunk[i + j - 1]) = Lower(seq[j]) ELSE chunk[i + j - 1] = seq[j]
MustWait(s, chunk, i) ==
  CASE s.st = "markupdecl" -> Partial(chunk, i, <<DASH, DASH>>, FALSE) \/ Partial(chunk, i, sDOCTYPE, TRUE) \/ Partial(chunk, i, sCDATA, FALSE)
    [] s.st = "afterdoctypename" -> ~IsWs(chunk[i]) /\ chunk[i] # GT /\ (Partial(chunk, i, sPUBLIC, TRUE) \/ Partial(chunk, i, sSYSTEM, TRUE))
    [] s.st = "cdata" -> chunk[i] = RBR /\ Partial(chunk, i, <<RBR, RBR, GT>>, FALSE)
    [] OTHER -> FALSE

\* run the machine over chunk from relative index i; returns [sm, i] where i is the index it stopped at
RECURSIVE RunChunk(_, _, _, _)
RunChunk(s, chunk, i, last) ==
  IF s.done THEN [sm |-> s, i |-> i]
  ELSE IF i > Len(chunk) THEN
       (IF ~last THEN [sm |-> s, i |-> i]
        ELSE LET s1 == Step([s EXCEPT !.re = FALSE, !.skip = 0], chunk, i, EOFC) IN
             IF s1.re THEN RunChunk(s1, chunk, i, last) ELSE [sm |-> [s1 EXCEPT !.done = TRUE], i |-> i])
  ELSE IF ~last /\ MustWait(s, chunk, i) THEN [sm |-> s, i |-> i]
  ELSE LET s1 == Step([s EXCEPT !.re = FALSE, !.skip = 0], chunk, i, chunk[i]) IN
       RunChunk(s1, chunk, IF s1.re THEN i ELSE i + 1 + s1.skip, last)

Sub(x, c) == IF x >= c THEN x - c ELSE 0
\* Align: re-base every stored position by the consumed byte count
Rebase(s, c) ==
  [s EXCEPT !.ts = Sub(@, c),
            !.tok = [@ EXCEPT !.s = Sub(@, c), !.nm = <<Sub(@[1], c), Sub(@[2], c)>>,
                              !.attrs = IF s.tok.k = "dt" THEN [j \in 1..Len(@) |-> <<Sub(@[j][1], c), Sub(@[j][2], c), @[j][3]>>]
                                        ELSE [j \in 1..Len(@) |-> <<Sub(@[j][1], c), Sub(@[j][2], c), Sub(@[j][3], c), Sub(@[j][4], c)>>]],
            !.at = <<Sub(@[1], c), Sub(@[2], c), Sub(@[3], c), Sub(@[4], c)>>,
            !.tmp = Sub(@, c)]

\* tokens with absolute offsets
Abs(t, b) == [t EXCEPT !.s = @ + b, !.e = @ + b]
\* what the machine still needs from the chunk: the start of the unfinished construct
PendingFrom(s, stopAt, n) ==
  IF s.st \in {"scriptdescstart", "scriptdescend"} THEN Sub(s.tmp, 2)
  ELSE IF s.st \in TextStates THEN stopAt      \* everything before the stop position is plain text
  ELSE s.tok.s

Init == /\ input \in Inputs /\ fed = 0 /\ base = 0 /\ out = <<>> /\ done = FALSE
        /\ sm = [InitSm("sim", FALSE, "Data", <<>>, FALSE) EXCEPT !.ret = "1"]   \* ret doubles as the relative resume index (as text)

\* the resume index is kept in a separate field
Resume(s) == s.skip
Write(n) ==
  /\ ~done /\ n \in 0..(Len(input) - fed)
  /\ LET chunk == SubSeq(input, base + 1, fed + n)
         r == RunChunk(sm, chunk, sm.wi, FALSE)          \* wi holds the relative index to resume at
         stopAt == r.i - 1                                 \* relative offset of the first unread byte
         pf == PendingFrom(r.sm, stopAt, Len(chunk))
         fl == Flush(r.sm, pf)                             \* eoc: pending text is emitted
         c == pf                                           \* consumed byte count
     IN /\ out' = out \o [k \in 1..Len(fl.toks) |-> Abs(fl.toks[k], base)]
        /\ sm' = [Rebase([fl EXCEPT !.toks = <<>>], c) EXCEPT !.wi = r.i - c]
        /\ base' = base + c /\ fed' = fed + n
  /\ UNCHANGED <<input, done>>
End ==
  /\ ~done /\ fed = Len(input)
  /\ LET chunk == SubSeq(input, base + 1, fed)
         r == RunChunk(sm, chunk, sm.wi, TRUE) IN
     /\ out' = out \o [k \in 1..Len(r.sm.toks) |-> Abs(r.sm.toks[k], base)]
     /\ sm' = [r.sm EXCEPT !.toks = <<>>]
  /\ done' = TRUE /\ UNCHANGED <<input, fed, base>>
Next == (\E n \in 0..Len(input) : Write(n)) \/ End
Spec == Init /\ [][Next]_vars

\* ---- properties -------------------------------------------------------------------------------------------
\* adjacent text runs of the same type are one text node
RECURSIVE MergeTx(_)
MergeTx(ts) == IF Len(ts) < 2 THEN ts
               ELSE IF ts[1].k = "tx" /\ ts[2].k = "tx" /\ ts[1].tt = ts[2].tt /\ ts[1].e = ts[2].s
                    THEN MergeTx(<<[ts[1] EXCEPT !.e = ts[2].e]>> \o SubSeq(ts, 3, Len(ts)))
                    ELSE <<ts[1]>> \o MergeTx(Tail(ts))
Shape(ts) == [k \in 1..Len(ts) |-> <<ts[k].k, ts[k].s, ts[k].e, ts[k].tt, ts[k].sc, ts[k].ns>>]
\* chunk-boundary invariance: whatever the chunking, the tokens are those of the one-shot run
Refines == done => Shape(MergeTx(out)) = Shape(MergeTx(Tokenize(input, "sim", FALSE).toks))
\* positions reported inside tokens (names, attributes) are those of the one-shot run too
RECURSIVE AbsParts(_, _)
Parts(ts) == [k \in 1..Len(SelectSeq(ts, LAMBDA t : t.k \in {"st", "et", "cm"})) |->
                LET t == SelectSeq(ts, LAMBDA x : x.k \in {"st", "et", "cm"})[k] IN <<t.k, t.s, t.nm[2] - t.nm[1], Len(t.attrs)>>]
AbsParts(ts, i) == <<>>
RefinesParts == done => Parts(out) = Parts(Tokenize(input, "sim", FALSE).toks)
\* tiling: consumed bytes + held bytes = bytes written
Tiling == base <= fed
\* low latency: what is held back is never more than the unfinished construct (a text run is never held)
LowLatency == ~done /\ sm.st \in {"data", "rcdata", "rawtext", "scriptdata", "plaintext"} => base = fed
=============================================================================
