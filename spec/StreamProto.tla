--------------------------- MODULE StreamProto ---------------------------
(***************************************************************************)
(* L0 contract of one rewriter instance as seen from outside: the call     *)
(* protocol (new; write*; end), the sink protocol (C12), fail-stop (C12),  *)
(* pass-through identity for non-mutating configurations (C01), the        *)
(* memory contract (C10) and the graceful bail-out contract for observer   *)
(* configurations (C11).                                                   *)
(*                                                                         *)
(* The contract is written as a deterministic monitor: Step(m, e, cfg)     *)
(* consumes one observable event.  It is used in two ways:                 *)
(*   - TraceStream.tla feeds it the events recorded from the real code;    *)
(*   - MC_Stream.tla runs it in lock-step with the implementation-shaped   *)
(*     model Stream.tla (L2) and checks m.ok as an invariant.              *)
(* Events (records, field "e" selects the kind):                           *)
(*   [e |-> "call", op |-> "new"|"write"|"end", b |-> bytes (write only)]  *)
(*   [e |-> "enc"]                 OutputSink::set_encoding                *)
(*   [e |-> "chunk", b |-> bytes]  OutputSink::handle_chunk                *)
(*   [e |-> "ev", k |-> kind, ...] a content/bail-out handler invocation   *)
(*   [e |-> "ret", res |-> "ok"|"err:mem"|"err:handler"|"err:ambiguity"|   *)
(*                          "panic", usage |-> n (optional, -1 = unknown)] *)
(* cfg: [clauses : sequence of property ids, passthru, gmem, ghandler :    *)
(*       BOOLEAN, max : Int (-1 = unlimited), nbail : Nat,                 *)
(*       exc : sequence of [s, e, norm] replacements]                      *)
(***************************************************************************)
EXTENDS Naturals, Integers, Sequences, SequencesExt

Init == [ph      |-> "fresh",   \* fresh | newcall | idle | write | end | done | failed | poke | dead
         enc     |-> FALSE,      \* set_encoding seen
         written |-> <<>>,       \* all bytes passed to write()
         out     |-> <<>>,       \* all bytes delivered to the sink
         empty   |-> FALSE,      \* zero-length chunk seen
         bo      |-> 0,          \* bail-out handler invocations
         boAt    |-> 0,          \* Len(out) when the first bail-out handler ran (0 = none)
         fails   |-> 0,          \* handler invocations that returned Err in the current call
         failK   |-> "",         \* kind of the failing handler's token
         res     |-> "",
         ok      |-> TRUE,
         why     |-> ""]

Bad(m, w) == [m EXCEPT !.ok = FALSE, !.why = w]

\* cfg.clauses names the properties whose clauses this record is judged for
\* ("C01" pass-through, "C10" memory, "C11" bail-out, "C12" sink protocol / fail-stop, "C15" no panic)
On(cfg, c) == \E i \in DOMAIN cfg.clauses : cfg.clauses[i] = c

InCall(m) == m.ph \in {"write", "end", "newcall"}

(* written with the documented text-normalisation exceptions applied (C01). *)
(* exc is sorted by start, non-overlapping; positions are 0-based offsets.  *)
RECURSIVE Splice(_, _, _)
Splice(bytes, exc, from) ==
  IF exc = <<>> THEN SubSeq(bytes, from + 1, Len(bytes))
  ELSE LET x == Head(exc) IN
       IF x.s >= Len(bytes) THEN SubSeq(bytes, from + 1, Len(bytes))
       ELSE SubSeq(bytes, from + 1, x.s) \o
            (IF x.e <= Len(bytes) THEN x.norm ELSE <<>>) \o
            Splice(bytes, Tail(exc), IF x.e <= Len(bytes) THEN x.e ELSE Len(bytes))

Expected(m, cfg) == Splice(m.written, cfg.exc, 0)

\* pass-through, no exceptions pending: the sink holds a prefix of the input
PrefixOk(m, cfg) == On(cfg, "C01") /\ cfg.passthru /\ cfg.exc = <<>> => IsPrefix(m.out, m.written)

Graceful(cfg, res) == \/ res = "err:mem" /\ cfg.gmem
                      \/ res = "err:handler" /\ cfg.ghandler

OnCall(m, e) ==
  CASE e.op = "new"   -> IF m.ph = "fresh" THEN [m EXCEPT !.ph = "newcall"] ELSE Bad(m, "new twice")
    [] e.op = "write" -> IF m.ph = "idle" THEN [m EXCEPT !.ph = "write", !.written = @ \o e.b, !.fails = 0]
                         ELSE IF m.ph = "failed" THEN [m EXCEPT !.ph = "poke"]
                         ELSE Bad(m, "write in phase " \o m.ph)
    [] e.op = "end"   -> IF m.ph = "idle" THEN [m EXCEPT !.ph = "end", !.fails = 0]
                         ELSE IF m.ph = "failed" THEN [m EXCEPT !.ph = "poke"]
                         ELSE Bad(m, "end in phase " \o m.ph)

OnEnc(m, cfg) ==
  IF ~On(cfg, "C12") THEN [m EXCEPT !.enc = TRUE]
  ELSE IF ~InCall(m) THEN Bad(m, "set_encoding outside a call")
  ELSE IF m.empty THEN Bad(m, "set_encoding after the final empty chunk")
  ELSE [m EXCEPT !.enc = TRUE]

OnChunk(m, e, cfg) ==
  IF ~On(cfg, "C12") THEN
       (IF Len(e.b) = 0 THEN [m EXCEPT !.empty = TRUE] ELSE [m EXCEPT !.out = @ \o e.b])
  ELSE IF m.ph = "poke" THEN Bad(m, "output produced by a call after an error")
  ELSE IF ~InCall(m) THEN Bad(m, "sink called outside write/end")
  ELSE IF ~m.enc THEN Bad(m, "chunk before set_encoding")
  ELSE IF m.empty THEN Bad(m, "sink called after the final empty chunk")
  ELSE IF Len(e.b) = 0 THEN
       (IF m.ph = "end" THEN [m EXCEPT !.empty = TRUE] ELSE Bad(m, "empty chunk outside end()"))
  ELSE [m EXCEPT !.out = @ \o e.b]

OnEv(m, e, cfg) ==
  IF On(cfg, "C12") /\ m.ph = "poke" THEN Bad(m, "handler invoked by a call after an error")
  ELSE IF On(cfg, "C12") /\ (~InCall(m) \/ m.ph = "newcall") THEN Bad(m, "handler invoked outside write/end")
  ELSE IF On(cfg, "C12") /\ m.empty THEN Bad(m, "handler invoked after the final empty chunk")
  ELSE IF e.k = "bo" THEN
       (IF On(cfg, "C11") /\ m.bo >= cfg.nbail THEN Bad(m, "bail-out handler ran more than once")
        ELSE [m EXCEPT !.bo = @ + 1, !.boAt = IF m.bo = 0 THEN Len(m.out) + 1 ELSE @])
  ELSE IF On(cfg, "C11") /\ m.bo > 0 THEN Bad(m, "content handler ran after bail-out started")
  ELSE IF On(cfg, "C12") /\ m.fails > 0 THEN Bad(m, "content handler ran after a handler had failed")
  ELSE IF e.fail THEN [m EXCEPT !.fails = 1, !.failK = e.k]
  ELSE m

UsageOk(e, cfg) ==
  \/ ~On(cfg, "C10")
  \/ cfg.max < 0
  \/ "usage" \notin DOMAIN e
  \/ e.usage <= cfg.max

OnRet(m, e, cfg) ==
  LET res == e.res IN
  IF m.ph = "newcall" THEN
     (IF res = "panic" /\ On(cfg, "C15") THEN Bad(m, "panic in HtmlRewriter::new")
      ELSE IF res # "ok" THEN [m EXCEPT !.ph = "dead", !.res = res]
      ELSE IF On(cfg, "C12") /\ ~m.enc THEN Bad(m, "no set_encoding during construction")
      ELSE [m EXCEPT !.ph = "idle"])
  ELSE IF m.ph = "poke" THEN
     (IF res = "panic" \/ ~On(cfg, "C12") THEN [m EXCEPT !.ph = "failed"] ELSE Bad(m, "use after error did not panic"))
  ELSE IF m.ph \notin {"write", "end"} THEN Bad(m, "return outside a call")
  ELSE IF res = "panic" THEN
     (IF On(cfg, "C15") THEN Bad(m, "panic") ELSE [m EXCEPT !.ph = "failed", !.res = res])
  ELSE IF res = "ok" THEN
     (IF On(cfg, "C12") /\ m.fails > 0 THEN Bad(m, "handler error swallowed")
      ELSE IF On(cfg, "C11") /\ m.bo > 0 THEN Bad(m, "bail-out handler ran in a successful call")
      ELSE IF ~UsageOk(e, cfg) THEN Bad(m, "accounted usage above the limit after a successful call")
      ELSE IF m.ph = "write" THEN
           (IF ~PrefixOk(m, cfg) THEN Bad(m, "pass-through output is not a prefix of the input")
            ELSE IF On(cfg, "C10") /\ cfg.passthru /\ cfg.max >= 0 /\ cfg.exc = <<>>
                    /\ Len(m.written) - Len(m.out) > cfg.max
                 THEN Bad(m, "retained input exceeds the memory limit")
            ELSE [m EXCEPT !.ph = "idle"])
      ELSE \* end
           (IF On(cfg, "C12") /\ ~m.empty THEN Bad(m, "successful end() without the final empty chunk")
            ELSE IF On(cfg, "C01") /\ cfg.passthru /\ m.out # Expected(m, cfg) THEN Bad(m, "pass-through output differs from input")
            ELSE [m EXCEPT !.ph = "done"]))
  ELSE \* an error result
     (IF On(cfg, "C12") /\ m.empty THEN Bad(m, "empty chunk in a failed end()")
      ELSE IF On(cfg, "C12") /\ res = "err:handler" /\ m.fails = 0 THEN Bad(m, "handler error reported but no handler failed")
      ELSE IF On(cfg, "C12") /\ res # "err:handler" /\ m.fails > 0 THEN Bad(m, "handler failure reported as " \o res)
      ELSE IF On(cfg, "C10") /\ res = "err:mem" /\ cfg.max < 0 THEN Bad(m, "memory error without a limit")
      ELSE IF Graceful(cfg, res) THEN
           (IF On(cfg, "C11") /\ m.bo # cfg.nbail THEN Bad(m, "bail-out handlers did not all run exactly once")
            ELSE IF On(cfg, "C11") /\ cfg.passthru /\ cfg.exc = <<>> /\ cfg.nbail = 0 /\ m.failK # "tx" /\ m.out # m.written
                 THEN Bad(m, "graceful bail-out lost or duplicated input bytes")
            ELSE [m EXCEPT !.ph = "failed", !.res = res])
      ELSE (IF On(cfg, "C11") /\ m.bo > 0 THEN Bad(m, "bail-out handler ran without a graceful bail-out")
            ELSE IF ~PrefixOk(m, cfg) THEN Bad(m, "output before the failure is not a prefix of the input")
            ELSE [m EXCEPT !.ph = "failed", !.res = res]))

Step(m, e, cfg) ==
  CASE e.e = "call"  -> OnCall(m, e)
    [] e.e = "enc"   -> OnEnc(m, cfg)
    [] e.e = "chunk" -> OnChunk(m, e, cfg)
    [] e.e = "ev"    -> OnEv(m, e, cfg)
    [] e.e = "ret"   -> OnRet(m, e, cfg)

\* A run is complete when its last call returned.
Quiescent(m) == m.ph \in {"idle", "done", "failed", "dead", "fresh"}
=============================================================================
