------------------------------- MODULE Edit -------------------------------
(***************************************************************************)
(* L0 (C07): the documented edit semantics, as a reference editor.         *)
(* The document is given as items (tags / text / comments / doctype with   *)
(* their byte ranges, as in Selectors / Scope); `toks` lists, in document  *)
(* order, every token some handler captured together with the operations   *)
(* the handlers performed on it (in invocation order).  Expected(r) is the *)
(* output the documentation promises:                                      *)
(*   - everything no handler touched is copied byte for byte;              *)
(*   - a token is serialised as  before, (self | replacement), after;      *)
(*   - element.before/after go outside its tags, prepend/append inside,    *)
(*     set_inner_content replaces the content, replace/remove drop tags    *)
(*     and content, remove_and_keep_content drops the tags only;           *)
(*   - repeated insertions accumulate: before/append in call order,        *)
(*     after/prepend in reverse call order; set_inner_content / replace    *)
(*     overwrite;                                                          *)
(*   - the content of a removed / replaced element is dropped together     *)
(*     with every edit made inside it (including the element's own         *)
(*     prepend / append / set_inner_content, which are inner content);     *)
(*   - an element closed by an ancestor's end tag gets its end-side        *)
(*     content (append, then after) right before that end tag, inner       *)
(*     elements first; the end tag itself belongs to the element it names; *)
(*   - operations that need content are no-ops on elements that cannot     *)
(*     have content; a modified start tag is `<name attr...>` with every   *)
(*     untouched attribute's source bytes.                                 *)
(* Content pieces: [c |-> bytes, html |-> BOOLEAN] (text is escaped).      *)
(***************************************************************************)
EXTENDS Naturals, Integers, Sequences, Scope, Tok

\* ---- escaping -------------------------------------------------------------------------------------
RECURSIVE EscText(_)
EscText(b) == IF b = <<>> THEN <<>> ELSE
  (CASE b[1] = 60 -> <<38, 108, 116, 59>> [] b[1] = 62 -> <<38, 103, 116, 59>> [] b[1] = 38 -> <<38, 97, 109, 112, 59>> [] OTHER -> <<b[1]>>)
  \o EscText(Tail(b))
RECURSIVE EscAttr(_)
EscAttr(b) == IF b = <<>> THEN <<>> ELSE (IF b[1] = 34 THEN <<38, 113, 117, 111, 116, 59>> ELSE <<b[1]>>) \o EscAttr(Tail(b))
Piece(op) == IF op.html THEN op.c ELSE EscText(op.c)
RECURSIVE Cat(_)
Cat(pieces) == IF pieces = <<>> THEN <<>> ELSE pieces[1] \o Cat(Tail(pieces))

\* ---- per-token mutation state (comments, text chunks, end tags, doctype) -------------------------------
TokInit == [before |-> <<>>, after |-> <<>>, removed |-> FALSE, repl |-> <<>>, text |-> <<>>, hasText |-> FALSE, name |-> <<>>, hasName |-> FALSE]
TokOp(st, op) ==
  CASE op.op = "before"   -> [st EXCEPT !.before = Append(@, Piece(op))]
    [] op.op = "after"    -> [st EXCEPT !.after = <<Piece(op)>> \o @]
    [] op.op = "replace"  -> [st EXCEPT !.removed = TRUE, !.repl = <<Piece(op)>>]
    \* (remove() after replace() keeps the replacement content: not specified by the documentation)
    [] op.op = "remove"   -> [st EXCEPT !.removed = TRUE]
    [] op.op = "set_text" -> IF op.ok THEN [st EXCEPT !.text = op.c, !.hasText = TRUE] ELSE st
    [] op.op = "set_str"  -> [st EXCEPT !.text = op.c, !.hasText = TRUE]
    [] op.op = "set_name" -> [st EXCEPT !.name = op.c, !.hasName = TRUE]
    [] OTHER -> st
RECURSIVE FoldTok(_, _, _)
FoldTok(st, ops, i) == IF i > Len(ops) THEN st ELSE FoldTok(TokOp(st, ops[i]), ops, i + 1)

\* ---- element state ------------------------------------------------------------------------------------------
ElInit == [before |-> <<>>, after |-> <<>>, prep |-> <<>>, app |-> <<>>, inner |-> FALSE, removed |-> FALSE,
           repl |-> <<>>, keep |-> FALSE, edits |-> <<>>, noslash |-> FALSE]
(* mode "doc" is the documented semantics (L0, the judge).  mode "kf-S9" is the model of known finding   *)
(* S9, used only to classify a rejection: remove()/replace() clear the inner insertions made so far, but *)
(* prepend/append/set_inner_content called afterwards are still emitted around the (removed) element.    *)
ElOp(st, op, chc, mode) ==
  CASE op.op = "before"      -> [st EXCEPT !.before = Append(@, Piece(op))]
    [] op.op = "after"       -> [st EXCEPT !.after = <<Piece(op)>> \o @]
    [] op.op = "prepend"     -> IF chc THEN [st EXCEPT !.prep = <<Piece(op)>> \o @, !.noslash = TRUE] ELSE st
    [] op.op = "append"      -> IF chc THEN [st EXCEPT !.app = Append(@, Piece(op)), !.noslash = TRUE] ELSE st
    [] op.op = "set_inner"   -> IF chc THEN [st EXCEPT !.inner = TRUE, !.prep = <<Piece(op)>>, !.app = <<>>, !.noslash = TRUE] ELSE st
    [] op.op = "replace"     -> IF mode = "kf-S9" /\ chc THEN [st EXCEPT !.removed = TRUE, !.repl = <<Piece(op)>>, !.prep = <<>>, !.app = <<>>]
                                ELSE [st EXCEPT !.removed = TRUE, !.repl = <<Piece(op)>>]
    \* remove() after replace(): the documentation does not say whether the replacement content goes too;
    \* the replacement is kept (what the code does)
    [] op.op = "remove"      -> IF mode = "kf-S9" /\ chc THEN [st EXCEPT !.removed = TRUE, !.prep = <<>>, !.app = <<>>]
                                ELSE [st EXCEPT !.removed = TRUE]
    [] op.op = "remove_keep" -> [st EXCEPT !.keep = TRUE]
    [] op.op \in {"set_attr", "rm_attr", "set_name"} -> IF op.ok THEN [st EXCEPT !.edits = Append(@, op)] ELSE st
    [] OTHER -> st
RECURSIVE FoldEl(_, _, _, _, _)
FoldEl(st, ops, i, chc, mode) == IF i > Len(ops) THEN st ELSE FoldEl(ElOp(st, ops[i], chc, mode), ops, i + 1, chc, mode)

\* ---- start tag re-serialisation -------------------------------------------------------------------------------
\* attributes of the source tag: [n (lower-case name), sn (the name as spelled in the source: a value set on an
\* existing attribute keeps that spelling), raw (source bytes name..value incl. closing quote), v]
SrcAttrs(tag) ==
  LET rt == TokenizeFrom(tag, "none", FALSE, "Data", <<>>, FALSE).toks[1] IN
  [i \in 1..Len(rt.attrs) |->
     LET a == rt.attrs[i]
         quoted == a[3] > 0 /\ tag[a[3]] \in {34, 39}
         rawEnd == IF a[3] = 0 /\ a[4] = 0 THEN a[2] ELSE IF quoted THEN a[4] + 1 ELSE a[4]
     IN [n |-> LowerSeq(SubSeq(tag, a[1] + 1, a[2])), sn |-> SubSeq(tag, a[1] + 1, a[2]), raw |-> SubSeq(tag, a[1] + 1, rawEnd), v |-> SubSeq(tag, a[3] + 1, a[4]), touched |-> FALSE]]
SrcName(tag) == LET rt == TokenizeFrom(tag, "none", FALSE, "Data", <<>>, FALSE).toks[1] IN SubSeq(tag, rt.nm[1] + 1, rt.nm[2])
SrcSlash(tag) == TokenizeFrom(tag, "none", FALSE, "Data", <<>>, FALSE).toks[1].sc

RECURSIVE FirstN(_, _, _)
FirstN(attrs, ln, i) == IF i > Len(attrs) THEN 0 ELSE IF attrs[i].n = ln THEN i ELSE FirstN(attrs, ln, i + 1)
TagEdit(st, ed) ==
  LET ln == LowerSeq(ed.n)  idx == FirstN(st.attrs, ln, 1) IN
  CASE ed.op = "set_attr" -> IF idx # 0 THEN [st EXCEPT !.attrs[idx] = [n |-> ln, sn |-> @.sn, raw |-> <<>>, v |-> ed.v, touched |-> TRUE]]
                             ELSE [st EXCEPT !.attrs = Append(@, [n |-> ln, sn |-> ln, raw |-> <<>>, v |-> ed.v, touched |-> TRUE])]
    [] ed.op = "rm_attr"  -> IF idx = 0 THEN st ELSE [st EXCEPT !.attrs = SubSeq(@, 1, idx - 1) \o SubSeq(@, idx + 1, Len(@))]
    [] ed.op = "set_name" -> [st EXCEPT !.name = ed.n]
RECURSIVE FoldTag(_, _, _)
FoldTag(st, eds, i) == IF i > Len(eds) THEN st ELSE FoldTag(TagEdit(st, eds[i]), eds, i + 1)
\* an edit that changes nothing observable (removing an absent attribute) still does not touch the bytes
Effective(tag, eds) == \E i \in 1..Len(eds) : eds[i].op # "rm_attr" \/ FirstN(SrcAttrs(tag), LowerSeq(eds[i].n), 1) # 0
RECURSIVE AttrBytes(_)
AttrBytes(attrs) == IF attrs = <<>> THEN <<>> ELSE
  <<32>> \o (IF attrs[1].touched THEN attrs[1].sn \o <<61, 34>> \o EscAttr(attrs[1].v) \o <<34>> ELSE attrs[1].raw) \o AttrBytes(Tail(attrs))
StartTagBytes(tag, el) ==
  IF el.edits = <<>> \/ ~Effective(tag, el.edits) THEN tag
  ELSE LET st == FoldTag([name |-> SrcName(tag), attrs |-> SrcAttrs(tag)], el.edits, 1)
           slash == SrcSlash(tag) /\ ~el.noslash
       IN <<60>> \o st.name \o AttrBytes(st.attrs) \o (IF slash THEN (IF st.attrs = <<>> THEN <<47, 62>> ELSE <<32, 47, 62>>) ELSE <<62>>)
NewName(el) == LET s == SelectSeq(el.edits, LAMBDA e : e.op = "set_name") IN IF s = <<>> THEN <<>> ELSE s[Len(s)].n

\* ---- the editor ------------------------------------------------------------------------------------------------
\* r.doc: items with [k, s, e, n, sc, ns]; r.toks: captured tokens [item, s, e, ops] in document order;
\* r.endops: operations of the document-end handlers.
Bytes(r, s, e) == SubSeq(r.input, s + 1, e)
ItemOps(r, i) == LET t == SelectSeq(r.toks, LAMBDA x : x.item = i) IN IF t = <<>> THEN <<>> ELSE t[1].ops
Captured(r, i) == \E j \in 1..Len(r.toks) : r.toks[j].item = i
Chc(r, i) == ~ClosesImmediately(r.doc[i])
ElState(r, i, mode) == FoldEl(ElInit, ItemOps(r, i), 1, Chc(r, i), mode)
\* the end tag item that closes element i (0 = never closed)
RECURSIVE CloserFrom(_, _, _, _)
CloserFrom(r, tr, i, j) == IF j > Len(r.doc) THEN 0
                           ELSE IF r.doc[j].k = "et" /\ i \in Closed(r.doc, tr, j) THEN j ELSE CloserFrom(r, tr, i, j + 1)
Closer(r, tr, i) == IF ~Chc(r, i) THEN 0 ELSE CloserFrom(r, tr, i, i + 1)
DropsContent(el) == el.removed \/ el.inner

\* elements closed by end tag item j, innermost first
ClosedSeq(r, tr, j) ==
  LET stack == tr[j].anc  rest == IF HasOpen(r.doc, stack, r.doc[j].n) THEN PopTo(r.doc, stack, r.doc[j].n) ELSE stack
      n == Len(stack) - Len(rest)
  IN [k \in 1..n |-> stack[Len(stack) - k + 1]]

\* walk the captured tokens; state = [out, pos, dropEnd (item index where dropping stops; 0 = not dropping), dropEl]
EmitIf(st, b) == IF st.dropEnd = 0 THEN [st EXCEPT !.out = @ \o b] ELSE st
CopyTo(r, st, p) == IF p > st.pos THEN [EmitIf(st, Bytes(r, st.pos, p)) EXCEPT !.pos = p] ELSE st

RECURSIVE EndSide(_, _, _, _, _, _, _)
\* end-side content of the elements closing at end tag j, innermost first; owner = the element the tag names
EndSide(r, tr, st, cs, k, owner, mode) ==
  IF k > Len(cs) THEN st
  ELSE LET i == cs[k]  el == ElState(r, i, mode)  cap == Captured(r, i)
           \* leaving a dropped region: its own end side is emitted again (after set_inner_content: the appends)
           st1 == IF st.dropEnd # 0 /\ st.dropEl = i THEN [st EXCEPT !.dropEnd = 0, !.dropEl = 0] ELSE st
           inner == IF cap /\ (~el.removed \/ mode = "kf-S9") THEN Cat(el.app) ELSE <<>>
           aft == IF cap /\ i # owner THEN Cat(el.after) ELSE <<>>
       IN EndSide(r, tr, EmitIf(EmitIf(st1, inner), aft), cs, k + 1, owner, mode)

TokenOut(r, tr, st, t, mode) ==
  LET it == r.doc[t.item] IN
  IF it.k = "st" THEN
       LET el == ElState(r, t.item, mode)  tag == Bytes(r, t.s, t.e)  closer == Closer(r, tr, t.item)
           body == IF el.removed THEN Cat(el.repl) \o (IF mode = "kf-S9" THEN Cat(el.prep) ELSE <<>>)
                   ELSE (IF el.keep THEN <<>> ELSE StartTagBytes(tag, el)) \o Cat(el.prep)
                        \o (IF ~Chc(r, t.item) THEN Cat(el.after) ELSE <<>>)
           s1 == EmitIf(st, Cat(el.before) \o body)
           \* a removed element that cannot have content still gets its after
           s2 == IF el.removed /\ ~Chc(r, t.item) THEN EmitIf(s1, Cat(el.after)) ELSE s1
       IN IF st.dropEnd = 0 /\ Chc(r, t.item) /\ DropsContent(el)
          THEN [s2 EXCEPT !.dropEnd = IF closer = 0 THEN Len(r.doc) + 1 ELSE closer, !.dropEl = t.item]
          ELSE s2
  ELSE IF it.k = "et" THEN
       LET cs == ClosedSeq(r, tr, t.item)
           owner == IF cs = <<>> THEN 0 ELSE cs[Len(cs)]
           s1 == EndSide(r, tr, st, cs, 1, owner, mode)
           ot == IF owner # 0 /\ Captured(r, owner) THEN ElState(r, owner, mode) ELSE ElInit
           et == FoldTok(TokInit, t.ops, 1)
           nn == IF et.hasName THEN et.name ELSE NewName(ot)
           tagb == IF nn # <<>> THEN <<60, 47>> \o nn \o <<62>> ELSE Bytes(r, t.s, t.e)
           gone == ot.removed \/ ot.keep
           body == Cat(et.before) \o (IF et.removed THEN Cat(et.repl) ELSE IF gone THEN <<>> ELSE tagb) \o Cat(et.after)
           s2 == EmitIf(s1, body)
       IN IF owner # 0 /\ Captured(r, owner) THEN EmitIf(s2, Cat(ot.after)) ELSE s2
  ELSE \* comment, text chunk, doctype
       LET m == FoldTok(TokInit, t.ops, 1)
           self == IF it.k = "cm" /\ m.hasText THEN <<60, 33, 45, 45>> \o m.text \o <<45, 45, 62>>
                   ELSE IF it.k = "tx" /\ m.hasText THEN m.text
                   ELSE Bytes(r, t.s, t.e)
       IN EmitIf(st, Cat(m.before) \o (IF m.removed THEN Cat(m.repl) ELSE self) \o Cat(m.after))

RECURSIVE Walk2(_, _, _, _, _)
Walk2(r, tr, st, k, mode) ==
  IF k > Len(r.toks) THEN st
  ELSE LET t == r.toks[k]
           s0 == CopyTo(r, st, t.s)
           s1 == TokenOut(r, tr, s0, t, mode)
       IN Walk2(r, tr, [s1 EXCEPT !.pos = IF t.e > s1.pos THEN t.e ELSE s1.pos], k + 1, mode)

ExpectedM(r, mode) ==
  LET tr == Tree(r.doc)
      st == Walk2(r, tr, [out |-> <<>>, pos |-> 0, dropEnd |-> 0, dropEl |-> 0], 1, mode)
      fin == CopyTo(r, st, Len(r.input))
  IN fin.out \o Cat([i \in 1..Len(r.endops) |-> IF r.endops[i].op = "append" THEN Piece(r.endops[i]) ELSE <<>>])
Expected(r) == ExpectedM(r, "doc")

\* Structural signature of known findings S4 / S10: an end tag closes an inner captured element besides the
\* element it names, and that inner element has end-side state (append / after / remove / replace /
\* remove_and_keep_content / set_tag_name, or an end-tag handler that edits the tag).
HasEndSide(r, i) == \E k \in 1..Len(ItemOps(r, i)) : ItemOps(r, i)[k].op \in {"append", "after", "remove", "replace", "remove_keep", "set_name", "set_inner"}
ImplicitCloseWithEdits(r) ==
  LET tr == Tree(r.doc) IN
  \E j \in 1..Len(r.doc) : r.doc[j].k = "et" /\
     LET cs == ClosedSeq(r, tr, j) IN
     Len(cs) >= 2 /\ \E k \in 1..(Len(cs) - 1) : Captured(r, cs[k]) /\ (HasEndSide(r, cs[k]) \/ (Captured(r, j) /\ ItemOps(r, j) # <<>>))
=============================================================================
