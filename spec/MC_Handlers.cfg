SPECIFICATION Spec
CONSTANTS
  Docs <- DocsQuick
  HandlerSets <- HSQuick
INVARIANT NoPanic
INVARIANT Refines
INVARIANT EndOnce
INVARIANT CountsExact
INVARIANT LocatorsValid
INVARIANT Emit
CHECK_DEADLOCK FALSE
