------------------------------ MODULE MC_SelVM ------------------------------
(* Bounded instance of SelectorVM: every document of <= N tags over a small tag alphabet x a family of     *)
(* selector sets chosen to exercise trie sharing, child / descendant jumps, hereditary-jump de-duplication,  *)
(* nth counters across pops, the two-phase (without / with attributes) execution, void and foreign tags.    *)
EXTENDS SelectorVM

na == <<97>>  nb == <<98>>  nbr == <<98, 114>>  nc == <<99>>  nx == <<120>>
St(n, attrs, sc, ns) == [k |-> "st", n |-> n, attrs |-> attrs, sc |-> sc, ns |-> ns]
Et(n) == [k |-> "et", n |-> n]
cls == << <<b_class, nc>> >>
Tags == { St(na, <<>>, FALSE, "html"), St(na, cls, FALSE, "html"), St(nb, <<>>, FALSE, "html"), St(nb, << <<nx, <<>>>> >>, FALSE, "html"),
          Et(na), Et(nb), St(nbr, <<>>, FALSE, "html"), St(na, <<>>, TRUE, "svg"), St(nb, cls, FALSE, "svg") }
TagsQuick == { St(na, <<>>, FALSE, "html"), St(na, cls, FALSE, "html"), St(nb, << <<nx, <<>>>> >>, FALSE, "html"),
               Et(na), Et(nb), St(nbr, <<>>, FALSE, "html"), St(nb, cls, TRUE, "svg") }
RECURSIVE SeqsUpTo(_, _)
SeqsUpTo(T, n) == IF n = 0 THEN {<<>>} ELSE LET s == SeqsUpTo(T, n - 1) IN s \cup {Append(x, t) : x \in {y \in s : Len(y) = n - 1}, t \in T}
\* longer hand-picked documents: counters across pops, implicit closes by an outer end tag, stray end tags, re-opened names
tA == St(na, <<>>, FALSE, "html")  tAc == St(na, cls, FALSE, "html")  tB == St(nb, <<>>, FALSE, "html")  tBx == St(nb, << <<nx, <<>>>> >>, FALSE, "html")
tBr == St(nbr, <<>>, FALSE, "html")  tSvgB == St(nb, cls, FALSE, "svg")  tSvgAsc == St(na, <<>>, TRUE, "svg")
DocsExtra == { <<tA, tB, Et(na), tA, tB>>, <<tA, tB, Et(na), tA, tB, tB>>, <<tA, tB, tB, Et(na), tB>>, <<tA, tAc, Et(na), Et(na), tBx>>,
               <<tBx, tBx, Et(nb), tBx, Et(nb), tBx>>, <<tA, tB, tA, Et(nb), tAc, tB>>, <<tA, tBr, tB, tBr, tB>>, <<tA, tSvgB, tSvgAsc, tAc, Et(nb), tB>>,
               <<tA, tA, tAc, Et(na), Et(na), tAc>>, <<Et(na), tB, Et(na), tB, Et(nb), Et(nb), tB>> }
DocsQuick == SeqsUpTo(TagsQuick, 3) \cup {Append(Append(d, St(nb, cls, FALSE, "html")), St(na, cls, FALSE, "html")) : d \in SeqsUpTo(TagsQuick, 2)} \cup DocsExtra
DocsThorough == SeqsUpTo(Tags, 3) \cup SeqsUpTo(TagsQuick, 4) \cup DocsExtra

\* compounds
Ty(n) == [t |-> "type", n |-> n]
cA == <<Ty(na)>>  cB == <<Ty(nb)>>  cAny == <<[t |-> "univ"]>>
cCls == <<[t |-> "class", v |-> nc]>>
cACls == <<Ty(na), [t |-> "class", v |-> nc]>>
cX == <<[t |-> "attr", n |-> nx, op |-> "", v |-> <<>>, cs |-> ""]>>
cOdd == <<[t |-> "nth", oftype |-> FALSE, a |-> 2, b |-> 1]>>
cSecond == <<[t |-> "nth", oftype |-> FALSE, a |-> 0, b |-> 2]>>
cBType2 == <<Ty(nb), [t |-> "nth", oftype |-> TRUE, a |-> 0, b |-> 2]>>
cType1 == <<[t |-> "nth", oftype |-> TRUE, a |-> 0, b |-> 1]>>
cNotA == <<[t |-> "not", args |-> <<cA>>]>>
cNotCls == <<[t |-> "not", args |-> <<cCls>>]>>
cNotACls == <<[t |-> "not", args |-> <<cACls>>]>>      \* the shape of known finding S2
Comps == {cA, cB, cAny, cCls, cACls, cX, cOdd, cSecond, cBType2, cType1, cNotA, cNotCls, cNotACls}
CompsQuick == {cA, cB, cAny, cCls, cACls, cOdd, cBType2, cNotCls}

C1(c) == << [comb |-> "", comp |-> c] >>
C2(c1, k, c2) == << [comb |-> "", comp |-> c1], [comb |-> k, comp |-> c2] >>
C3(c1, k1, c2, k2, c3) == << [comb |-> "", comp |-> c1], [comb |-> k1, comp |-> c2], [comb |-> k2, comp |-> c3] >>
Cx1(CS) == {C1(c) : c \in CS}
Cx2(CS) == {C2(c1, k, c2) : c1 \in CS, k \in {">", " "}, c2 \in CS}
\* hand-picked complex selectors that share prefixes / differ in one combinator / repeat a descendant hop
Picked == { C1(cA), C1(cCls), C2(cA, " ", cB), C2(cA, ">", cB), C2(cA, " ", cCls), C2(cA, ">", cACls), C2(cAny, " ", cA),
            C3(cA, " ", cA, " ", cCls), C3(cA, " ", cB, ">", cA), C3(cA, ">", cAny, " ", cCls), C3(cAny, " ", cAny, " ", cAny),
            C2(cCls, " ", cOdd), C2(cA, ">", cBType2), C2(cNotCls, " ", cA), C3(cA, " ", cNotA, ">", cX) }
\* a handler's selector may itself be a list
Single(CX) == { << <<cx>> >> : cx \in CX }
Pairs(CX) == { << <<c1>>, <<c2>> >> : c1 \in CX, c2 \in CX }
Lists == { << <<C1(cA), C2(cA, " ", cB)>>, <<C2(cA, " ", cB)>> >>, << <<C2(cA, " ", cCls), C2(cB, " ", cCls)>> >> }

SelSetsQuick == Single(Cx1(CompsQuick) \cup Cx2(CompsQuick) \cup Picked) \cup Pairs({C2(cA, " ", cB), C2(cA, ">", cB), C2(cA, " ", cCls), C3(cA, " ", cA, " ", cCls), C2(cCls, " ", cOdd), C2(cA, ">", cBType2)}) \cup Lists
SelSetsThorough == Single(Cx1(Comps) \cup Cx2(Comps) \cup Picked) \cup Pairs(Picked) \cup Lists
=============================================================================
