---------------------------- MODULE TraceEnc ----------------------------
(***************************************************************************)
(* C13, character-encoding fidelity.  Encoding tables cannot live in TLC:  *)
(* Decode / Encode are witnessed functions -- the record carries their     *)
(* graph on the slices involved, computed by encoding_rs in one whole-     *)
(* slice call (independent of lol-html's streaming decoder / encoder).     *)
(* The specification decides WHICH slice must be decoded (via the          *)
(* reference tokenizer Tok), how chunks concatenate, where inserted        *)
(* content lands, and the meta-charset switch protocol.                    *)
(* Record kinds (field "kind"):                                            *)
(*  "read":   [enc, input, toks (observed events with strings),            *)
(*             wit : seq of [s, e, t] = Decode(enc, input[s..e))]          *)
(*  "insert": [input, p, sink, res, encoded = Encode(enc, content)]        *)
(*  "config": [label, accepted]                                            *)
(*  "meta":   [input, metaEnd (offset just after the first effective meta  *)
(*             tag, 0 = none), toks with strings, wit0 / wit1 (witnesses   *)
(*             in the initial / declared encoding), encEvents (positions   *)
(*             in the event order), ...]                                   *)
(***************************************************************************)
EXTENDS Naturals, Integers, Sequences, TLC, Json, IOUtils, Tok

Rec == ndJsonDeserialize(IOEnv.TRACE)
VARIABLES l, nbad
vars == <<l, nbad>>

\* witnessed decoding of input[s..e): the code points, or <<-1>> when the record carries no witness
RECURSIVE Lookup(_, _, _, _)
Lookup(w, s, e, i) == IF i > Len(w) THEN <<-1>> ELSE IF w[i].s = s /\ w[i].e = e THEN w[i].t ELSE Lookup(w, s, e, i + 1)
W(w, s, e) == IF s = e THEN <<>> ELSE Lookup(w, s, e, 1)
Same(obs, d) == d = <<-1>> \/ obs = d
LowCp(c) == IF c >= 65 /\ c <= 90 THEN c + 32 ELSE c
SameLow(obs, d) == d = <<-1>> \/ obs = [i \in 1..Len(d) |-> LowCp(d[i])]

Slice(r, s, e) == SubSeq(r.input, s + 1, e)
RefTok(r, t) == LET rt == TokenizeFrom(Slice(r, t.s, t.e), "none", FALSE, "Data", <<>>, FALSE).toks IN
                IF Len(rt) = 1 /\ rt[1].s = 0 /\ rt[1].e = t.e - t.s THEN rt ELSE <<>>

StartOk(r, w, t) ==
  LET rt == RefTok(r, t) IN
  rt = <<>> \/ rt[1].k # "st" \/ Len(rt[1].attrs) # Len(t.attrs) \/
  LET ref == rt[1] IN
  /\ Same(t.nameraw, W(w, t.s + ref.nm[1], t.s + ref.nm[2])) /\ SameLow(t.name, W(w, t.s + ref.nm[1], t.s + ref.nm[2]))
  /\ \A i \in 1..Len(ref.attrs) :
        /\ Same(t.attrs[i].nr, W(w, t.s + ref.attrs[i][1], t.s + ref.attrs[i][2]))
        /\ SameLow(t.attrs[i].n, W(w, t.s + ref.attrs[i][1], t.s + ref.attrs[i][2]))
        /\ Same(t.attrs[i].v, W(w, t.s + ref.attrs[i][3], t.s + ref.attrs[i][4]))
EndOk(r, w, t) ==
  LET rt == RefTok(r, t) IN
  rt = <<>> \/ rt[1].k # "et" \/ (Same(t.nameraw, W(w, t.s + rt[1].nm[1], t.s + rt[1].nm[2])) /\ SameLow(t.name, W(w, t.s + rt[1].nm[1], t.s + rt[1].nm[2])))
CommentOk(r, w, t) ==
  LET rt == RefTok(r, t) IN
  rt = <<>> \/ rt[1].k # "cm" \/ Same(t.text, W(w, t.s + rt[1].nm[1], t.s + rt[1].nm[2]))

\* text nodes: the chunks of a node concatenate to the decoding of the whole node's bytes
RECURSIVE NodesOk(_, _, _, _, _, _)
NodesOk(r, w, toks, i, start, acc) ==    \* start = -1 when no node is open
  IF i > Len(toks) THEN TRUE
  ELSE LET t == toks[i] IN
       IF t.k # "tx" THEN NodesOk(r, w, toks, i + 1, -1, <<>>)
       ELSE LET s0 == IF start = -1 THEN t.s ELSE start  a2 == acc \o t.text IN
            IF t.last THEN Same(a2, W(w, s0, t.e)) /\ NodesOk(r, w, toks, i + 1, -1, <<>>)
            ELSE NodesOk(r, w, toks, i + 1, s0, a2)

ReadVerdict(r, w, toks) ==
  IF \E i \in 1..Len(toks) : toks[i].k = "st" /\ ~StartOk(r, w, toks[i]) THEN "C13: a tag or attribute name / value read by a handler is not the decoding of its source bytes"
  ELSE IF \E i \in 1..Len(toks) : toks[i].k = "et" /\ ~EndOk(r, w, toks[i]) THEN "C13: an end tag name is not the decoding of its source bytes"
  ELSE IF \E i \in 1..Len(toks) : toks[i].k = "cm" /\ ~CommentOk(r, w, toks[i]) THEN "C13: comment text is not the decoding of its source bytes"
  ELSE IF ~NodesOk(r, w, toks, 1, -1, <<>>) THEN "C13: the chunks of a text node do not concatenate to the decoding of the node's bytes"
  ELSE "ok"

NonAsciiCompatible == {"UTF-16LE", "UTF-16BE", "ISO-2022-JP", "replacement"}

\* meta charset: tokens that start before the end of the effective meta tag use the initial encoding,
\* later ones the declared one; at most one switch; the sink learns about it before any later output
MetaVerdict(r) ==
  LET before == SelectSeq(r.toks, LAMBDA t : t.s < r.metaEnd \/ r.metaEnd = 0)
      after == SelectSeq(r.toks, LAMBDA t : r.metaEnd # 0 /\ t.s >= r.metaEnd)
      v0 == ReadVerdict(r, r.wit0, before)
      v1 == ReadVerdict(r, r.wit1, after)
  IN IF r.res # "ok" THEN "C13: a run with observers only failed: " \o r.res
     ELSE IF r.nenc > (IF r.metaEnd = 0 \/ r.same THEN 1 ELSE 2) THEN "C13: the encoding was switched more than once"
     ELSE IF r.metaEnd # 0 /\ ~r.same /\ r.nenc # 2 THEN "C13: a meta charset declaration did not switch the encoding (or the sink was not notified)"
     ELSE IF r.metaEnd # 0 /\ ~r.same /\ r.switchAfterOutput THEN "C13: output in the new encoding reached the sink before set_encoding"
     ELSE IF v0 # "ok" THEN v0 \o " (before the meta tag)"
     ELSE IF v1 # "ok" THEN v1 \o " (after the meta tag)"
     ELSE "ok"

Verdict(r) ==
  CASE r.kind = "read" -> ReadVerdict(r, r.wit, r.toks)
    [] r.kind = "insert" ->
         IF r.res # "ok" THEN "C13: run failed: " \o r.res
         ELSE IF r.sink # SubSeq(r.input, 1, r.p) \o r.encoded \o SubSeq(r.input, r.p + 1, Len(r.input))
              THEN "C13: inserted content is not encoded in the document encoding (with numeric character references for what it cannot represent)"
         ELSE "ok"
    [] r.kind = "config" ->
         IF r.accepted = (r.label \notin NonAsciiCompatible) THEN "ok" ELSE "C13: (non-)ASCII-compatible encoding accepted / refused wrongly at configuration time"
    [] r.kind = "meta" -> MetaVerdict(r)
    [] r.kind = "failed" -> "C13: a run with observers only failed: " \o r.res

TInit == l = 1 /\ nbad = 0
TNext == /\ l <= Len(Rec)
         /\ LET v == Verdict(Rec[l]) IN
            IF v = "ok" THEN UNCHANGED nbad ELSE PrintT(<<"BAD", Rec[l].id, 0, v>>) /\ nbad' = nbad + 1
         /\ l' = l + 1
TSpec == TInit /\ [][TNext]_vars
Accepted == PrintT(<<"TRACE-SUMMARY", Len(Rec), TLCGet("stats").diameter>>)
AtEnd == l = Len(Rec) + 1 => PrintT(<<"TRACE-END", l - 1, nbad>>)
=============================================================================
