SPECIFICATION Spec
CONSTANTS
  StartNames <- SN
  EndNames <- EN
  MaxTags = 6
VIEW View
INVARIANT Emit
CHECK_DEADLOCK FALSE
