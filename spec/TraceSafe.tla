---------------------------- MODULE TraceSafe ----------------------------
(***************************************************************************)
(* C08: inserted text and validated names / values cannot change markup    *)
(* structure.  The judge never looks at lol-html's escaping code: it       *)
(* re-tokenizes the OUTPUT with the reference tokenizer (Tok) and compares *)
(* its token structure with the structure of the INPUT plus exactly the    *)
(* intended insertion.                                                     *)
(* Record: [id, input, output, api, arg (bytes), arg2 (bytes), res, textctx] *)
(*   api: "text" (Text content inserted somewhere), "set_attr" (arg = name, *)
(*        arg2 = value, on the first start tag named target),              *)
(*        "set_text" (first comment), "set_name" (first start tag named    *)
(*        target and its end tag); res = "ok" | "err" (call rejected)      *)
(***************************************************************************)
EXTENDS Naturals, Integers, Sequences, TLC, Json, IOUtils, Tok

Rec == ndJsonDeserialize(IOEnv.TRACE)
VARIABLES l, nbad
vars == <<l, nbad>>

Toks(b) == Tokenize(b, "sim", FALSE).toks
NonText(ts) == SelectSeq(ts, LAMBDA t : t.k \in {"st", "et", "cm", "dt"})

\* &quot; -> " (the only escape applied to attribute values)
RECURSIVE UnQuot(_)
UnQuot(b) == IF b = <<>> THEN <<>>
             ELSE IF Len(b) >= 6 /\ SubSeq(b, 1, 6) = <<38, 113, 117, 111, 116, 59>> THEN <<34>> \o UnQuot(SubSeq(b, 7, Len(b)))
             ELSE <<b[1]>> \o UnQuot(Tail(b))
\* &lt; &gt; &amp; -> < > &  (the escapes applied to text content)
RECURSIVE UnText(_)
UnText(b) == IF b = <<>> THEN <<>>
             ELSE IF Len(b) >= 4 /\ SubSeq(b, 1, 4) = <<38, 108, 116, 59>> THEN <<60>> \o UnText(SubSeq(b, 5, Len(b)))
             ELSE IF Len(b) >= 4 /\ SubSeq(b, 1, 4) = <<38, 103, 116, 59>> THEN <<62>> \o UnText(SubSeq(b, 5, Len(b)))
             ELSE IF Len(b) >= 5 /\ SubSeq(b, 1, 5) = <<38, 97, 109, 112, 59>> THEN <<38>> \o UnText(SubSeq(b, 6, Len(b)))
             ELSE <<b[1]>> \o UnText(Tail(b))

\* structure of one non-text token: kind, name, attributes (lower-case name, value with &quot; undone), flag, data
TokShape(b, t) ==
  IF t.k \in {"st", "et"} THEN
       [k |-> t.k, name |-> SubSeq(b, t.nm[1] + 1, t.nm[2]),
        attrs |-> [i \in 1..Len(t.attrs) |-> <<LowerSeq(SubSeq(b, t.attrs[i][1] + 1, t.attrs[i][2])), UnQuot(SubSeq(b, t.attrs[i][3] + 1, t.attrs[i][4]))>>],
        sc |-> t.sc, data |-> <<>>]
  ELSE [k |-> t.k, name |-> <<>>, attrs |-> <<>>, sc |-> FALSE,
        data |-> IF t.k = "cm" THEN SubSeq(b, t.nm[1] + 1, t.nm[2]) ELSE SubSeq(b, t.s + 1, t.e)]
Shape(b) == LET ts == NonText(Toks(b)) IN [i \in 1..Len(ts) |-> TokShape(b, ts[i])]

\* all character data of the document, escapes undone
RECURSIVE CatText(_, _, _)
CatText(b, ts, i) == IF i > Len(ts) THEN <<>> ELSE (IF ts[i].k = "tx" THEN SubSeq(b, ts[i].s + 1, ts[i].e) ELSE <<>>) \o CatText(b, ts, i + 1)
Text(b) == UnText(CatText(b, Toks(b), 1))

\* raw character data (escapes kept)
RawText(b) == CatText(b, Toks(b), 1)
\* Text content in a legacy encoding: & < > of the given string are escaped, then every character is encoded
\* by the witnessed encoder r.cmap (its bytes, or a numeric character reference when the encoding lacks it)
RECURSIVE CmapGet(_, _, _)
CmapGet(cmap, cp, i) == IF i > Len(cmap) THEN <<63>> ELSE IF cmap[i][1] = cp THEN cmap[i][2] ELSE CmapGet(cmap, cp, i + 1)
RECURSIVE EncEsc(_, _)
EncEsc(cps, cmap) == IF cps = <<>> THEN <<>> ELSE
  (CASE cps[1] = 38 -> <<38, 97, 109, 112, 59>> [] cps[1] = 60 -> <<38, 108, 116, 59>> [] cps[1] = 62 -> <<38, 103, 116, 59>>
     [] OTHER -> CmapGet(cmap, cps[1], 1)) \o EncEsc(Tail(cps), cmap)

FirstIdx(sh, P(_)) == LET s == SelectSeq([i \in 1..Len(sh) |-> i], P) IN IF s = <<>> THEN 0 ELSE s[1]

\* attribute list after set_attribute(n, v): replace the first attribute of that name or append
RECURSIVE FirstA(_, _, _)
FirstA(attrs, ln, i) == IF i > Len(attrs) THEN 0 ELSE IF attrs[i][1] = ln THEN i ELSE FirstA(attrs, ln, i + 1)
SetAttr(attrs, n, v) == LET ln == LowerSeq(n)  i == FirstA(attrs, ln, 1) IN
  IF i = 0 THEN Append(attrs, <<ln, v>>) ELSE [attrs EXCEPT ![i] = <<ln, v>>]

\* a run of this job has no failing handler, no limit and non-strict parsing: it cannot fail
Verdict(r) ==
  IF "failed" \in DOMAIN r THEN "C08: a run that has no reason to fail failed: " \o r.failed ELSE
  LET si == Shape(r.input)  so == Shape(r.output) IN
  IF r.res = "err" THEN (IF r.output = r.input THEN "ok" ELSE "C08: a rejected argument changed the output")
  ELSE IF r.api = "text" THEN
       (IF so # si THEN "C08: inserted text changed the token structure"
        ELSE IF "cmap" \in DOMAIN r THEN
             (IF r.textctx /\ ~(LET ti == RawText(r.input)  to == RawText(r.output)  x == EncEsc(r.argcp, r.cmap) IN
                                \E k \in 0..Len(ti) : to = SubSeq(ti, 1, k) \o x \o SubSeq(ti, k + 1, Len(ti)))
              THEN "C08: inserted text is not the escaped string encoded character by character in the document encoding"
              ELSE "ok")
        ELSE IF r.textctx /\ ~(LET ti == Text(r.input)  to == Text(r.output) IN
                \E k \in 0..Len(ti) : to = SubSeq(ti, 1, k) \o r.arg \o SubSeq(ti, k + 1, Len(ti)))
             THEN "C08: the inserted text does not read back as the given string"
        ELSE "ok")
  ELSE IF r.api = "set_attr" THEN
       LET i == FirstIdx(si, LAMBDA j : si[j].k = "st" /\ LowerSeq(si[j].name) = r.target) IN
       IF i = 0 THEN "ok"
       ELSE IF Len(so) # Len(si) THEN "C08: set_attribute changed the number of tokens"
       ELSE IF so # [si EXCEPT ![i].attrs = SetAttr(@, r.arg, r.arg2)] THEN "C08: set_attribute did not produce exactly the given attribute (or changed something else)"
       ELSE "ok"
  ELSE IF r.api = "set_text" THEN
       LET i == FirstIdx(si, LAMBDA j : si[j].k = "cm") IN
       IF i = 0 THEN "ok"
       ELSE IF so # [si EXCEPT ![i].data = r.arg] THEN "C08: Comment::set_text did not produce exactly one comment with the given text"
       ELSE "ok"
  ELSE IF r.api = "set_name" THEN
       LET i == FirstIdx(si, LAMBDA j : si[j].k = "st" /\ LowerSeq(si[j].name) = r.target)
           j == FirstIdx(si, LAMBDA x : si[x].k = "et" /\ LowerSeq(si[x].name) = r.target) IN
       IF i = 0 THEN "ok"
       ELSE IF so # [x \in 1..Len(si) |-> IF x = i \/ x = j THEN [si[x] EXCEPT !.name = r.arg] ELSE si[x]]
            THEN "C08: set_tag_name did not rename exactly the start and end tag"
       ELSE "ok"
  ELSE "ok"

TInit == l = 1 /\ nbad = 0
TNext == /\ l <= Len(Rec)
         /\ LET v == Verdict(Rec[l]) IN
            IF v = "ok" THEN UNCHANGED nbad ELSE PrintT(<<"BAD", Rec[l].id, 0, v>>) /\ nbad' = nbad + 1
         /\ l' = l + 1
TSpec == TInit /\ [][TNext]_vars
Accepted == PrintT(<<"TRACE-SUMMARY", Len(Rec), TLCGet("stats").diameter>>)
AtEnd == l = Len(Rec) + 1 => PrintT(<<"TRACE-END", l - 1, nbad>>)
=============================================================================
