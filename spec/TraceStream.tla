--------------------------- MODULE TraceStream ---------------------------
(***************************************************************************)
(* Trace validation of recorded runs of the real rewriter against the L0   *)
(* contract StreamProto (C12, C01, C15 and the observer clauses of C10/C11)*)
(* Input: NDJSON, one record per run:                                      *)
(*   [id, cfg : StreamProto cfg, tl : sequence of events,                  *)
(*    ref : bytes of the failure-free run's sink (or <<>> with hasref=F)]  *)
(* One TLC state per consumed event.  The judge is total: a record whose   *)
(* next event the contract rejects is reported (BAD line) and skipped, so  *)
(* the rest of the file is still examined.                                 *)
(***************************************************************************)
EXTENDS Naturals, Integers, Sequences, SequencesExt, TLC, Json, IOUtils

Rec == ndJsonDeserialize(IOEnv.TRACE)
P == INSTANCE StreamProto

VARIABLES l,     \* current record
          k,     \* next event of the record
          m,     \* contract monitor state
          nbad   \* number of rejected records
vars == <<l, k, m, nbad>>

TInit == l = 1 /\ k = 1 /\ m = P!Init /\ nbad = 0

Report(why) == PrintT(<<"BAD", Rec[l].id, k, why>>)

\* the prefix clause of C12: without graceful bail-out, what was emitted before a failure is a
\* prefix of what the complete run emits (product record: ref is the failure-free run's sink)
EndOk(mm, r) ==
  IF ~P!Quiescent(mm) THEN "run ended inside a call"
  ELSE IF P!On(r.cfg, "C12") /\ r.hasref /\ mm.ph = "failed" /\ ~P!Graceful(r.cfg, mm.res) /\ ~IsPrefix(mm.out, r.ref)
       THEN "output before the failure is not a prefix of the complete run's output"
  ELSE IF P!On(r.cfg, "C18") /\ r.hasref /\ mm.ph = "done" /\ mm.out # r.ref
       THEN "non-deterministic output (differs from the reference run)"
  ELSE "ok"

NextRec == l' = l + 1 /\ k' = 1 /\ m' = P!Init

Consume ==
  /\ l <= Len(Rec) /\ k <= Len(Rec[l].tl)
  /\ LET mm == P!Step(m, Rec[l].tl[k], Rec[l].cfg) IN
     IF mm.ok THEN /\ m' = mm /\ k' = k + 1 /\ UNCHANGED <<l, nbad>>
     ELSE /\ Report(mm.why) /\ nbad' = nbad + 1 /\ NextRec

Finish ==
  /\ l <= Len(Rec) /\ k = Len(Rec[l].tl) + 1
  /\ LET v == EndOk(m, Rec[l]) IN
     IF v = "ok" THEN UNCHANGED nbad ELSE Report(v) /\ nbad' = nbad + 1
  /\ NextRec

TNext == Consume \/ Finish
TSpec == TInit /\ [][TNext]_vars

\* acceptance: the whole file was consumed (checked by POSTCONDITION, deadlock checking off)
Accepted ==
  /\ PrintT(<<"TRACE-SUMMARY", Len(Rec), TLCGet("stats").diameter>>)
  /\ TRUE
Done == l = Len(Rec) + 1
AtEnd == Done => PrintT(<<"TRACE-END", l - 1, nbad>>)
=============================================================================
