----------------------------- MODULE MC_TextDec -----------------------------
EXTENDS TextDec
RECURSIVE SeqsUpTo(_, _)
SeqsUpTo(T, n) == IF n = 0 THEN {<<>>} ELSE LET s == SeqsUpTo(T, n - 1) IN s \cup {Append(x, t) : x \in {y \in s : Len(y) = n - 1}, t \in T}
NodeSet == SeqsUpTo({1, 2, 3, 4}, 4) \ {<<>>}
=============================================================================
