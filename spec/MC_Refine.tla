------------------------------ MODULE MC_Refine ------------------------------
(* Bounded instance of Parser.tla: all documents that are sequences of <= MaxFrags fragments of a fragment *)
(* alphabet (every tokenizer construct incl. look-ahead sequences, text-mode elements, CDATA, truncated    *)
(* constructs), EVERY composition into chunks.                                                             *)
EXTENDS Parser, TLC
S(str) == str   \* fragments are given as byte tuples below
Frags == <<
  <<120>>,                                        \* x
  <<60, 97, 62>>,                                 \* <a>
  <<60, 47, 97, 62>>,                             \* </a>
  <<60, 97, 32, 98, 61, 39, 99, 39, 62>>,         \* <a b='c'>
  <<60, 33, 45, 45, 99, 45, 45, 62>>,             \* <!--c-->
  <<60, 33, 45, 45>>,                             \* <!--
  <<45, 45, 62>>,                                 \* -->
  <<60, 33, 68, 79, 67, 84, 89, 80, 69, 32, 104, 62>>,  \* <!DOCTYPE h>
  <<60, 33, 100, 111>>,                           \* <!do
  <<60, 116, 105, 116, 108, 101, 62>>,            \* <title>
  <<60, 47, 116, 105, 116, 108, 101, 62>>,        \* </title>
  <<60, 115, 118, 103, 62>>,                      \* <svg>
  <<60, 33, 91, 67, 68, 65, 84, 65, 91>>,         \* <![CDATA[
  <<93, 93, 62>>,                                 \* ]]>
  <<93>>,                                         \* ]
  <<60>>,                                         \* <
  <<60, 47>>,                                     \* </
  <<60, 115, 99, 114, 105, 112, 116, 62>>,        \* <script>
  <<60, 47, 115, 99, 114, 105, 112, 116, 62>>     \* </script>
>>
RECURSIVE Cat(_)
Cat(s) == IF s = <<>> THEN <<>> ELSE Frags[s[1]] \o Cat(Tail(s))
Idx == 1..Len(Frags)
Docs1 == {Cat(<<a>>) : a \in Idx}
Docs2 == {Cat(<<a, b>>) : a \in Idx, b \in Idx}
Docs3 == {Cat(<<a, b, c>>) : a \in Idx, b \in Idx, c \in Idx}
\* constructs that need three or four fragments to arise (CDATA section in foreign content, escaped script data)
Extra == {Cat(<<12, 13, 14>>), Cat(<<12, 13, 15, 14>>), Cat(<<12, 13, 1, 15, 15, 14>>), Cat(<<12, 13, 14, 2>>), Cat(<<18, 6, 7, 19>>),
          Cat(<<18, 6, 18, 19, 7, 19>>), Cat(<<10, 1, 3, 11>>), Cat(<<10, 17, 11, 2>>), Cat(<<12, 10, 1, 11>>), Cat(<<8, 2, 1, 3>>)}
InputsQuick == Docs1 \cup Docs2 \cup Extra
InputsThorough == Docs1 \cup Docs2 \cup Docs3
=============================================================================
