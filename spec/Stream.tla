------------------------------- MODULE Stream -------------------------------
(***************************************************************************)
(* L2: lol-html's streaming core as implemented -- one HtmlRewriter with   *)
(* its TransformStream (parsing buffer "Arena", has_buffered_data),        *)
(* Dispatcher (remaining_content_start, emission of the bytes before /     *)
(* of a lexeme, flush of the remaining input), SharedMemoryLimiter (exact  *)
(* Arena growth, doubling open-element stack), the bail-out sites of       *)
(* write()/end(), and poisoning.  One action per critical section of       *)
(* src/transform_stream/mod.rs and dispatcher.rs.                          *)
(*                                                                         *)
(* Abstraction: the document is a sequence of lexemes [len, kind]; the     *)
(* parser, in lexing mode with observer handlers on every token, consumes  *)
(* every lexeme that is complete in the current chunk; text is consumed    *)
(* up to the end of the chunk; an incomplete non-text lexeme is left for   *)
(* the next call (buffered).  Input bytes are identified by their position *)
(* (byte i of the document is the integer i), so "no byte lost, none       *)
(* duplicated" can be stated exactly.                                      *)
(*                                                                         *)
(* The environment chooses: where each write() ends, which handler         *)
(* invocation fails (crash point), and the limit M (which allocation is    *)
(* the one that does not fit).                                             *)
(*                                                                         *)
(* The model runs the L0 contract StreamProto as a monitor in lock-step:   *)
(* every sink call / handler invocation / API return of the model is fed   *)
(* to StreamProto!Step; the invariant Refines says the monitor never       *)
(* rejects -- i.e. the mechanism implements the contract (C01, C10, C11,   *)
(* C12 at design level) for every chunking, crash point and limit.         *)
(***************************************************************************)
EXTENDS Naturals, Integers, Sequences, SequencesExt, TLC

CONSTANTS Doc,        \* sequence of [len |-> 1.., kind |-> "text" | "open" | "close" | "other"]
          Limits,     \* set of memory limits M to explore (-1 = unlimited)
          Prealloc,   \* preallocated parsing buffer size
          ItemSize,   \* bytes per open-element stack item
          MinCap,     \* minimum stack growth (items)
          FailPoints, \* set of handler invocation indices that may fail (0 = none)
          BailCounts  \* set of numbers of bail-out handlers to explore (each appends the byte -1)

P == INSTANCE StreamProto

Total == LET RECURSIVE Sum(_) Sum(i) == IF i = 0 THEN 0 ELSE Doc[i].len + Sum(i - 1) IN Sum(Len(Doc))
\* lexeme boundaries: Start(i) = offset of the first byte of lexeme i (0-based), End(i) exclusive
RECURSIVE StartOf(_)
StartOf(i) == IF i = 1 THEN 0 ELSE StartOf(i - 1) + Doc[i - 1].len
EndOf(i) == StartOf(i) + Doc[i].len
Ids(a, b) == [k \in 1..(b - a) |-> a + k]           \* the bytes at offsets a .. b-1, as ids a+1 .. b

VARIABLES
  M, failAt,           \* environment's choices, fixed at Init
  GMem, GHandler, NBail, \* configuration chosen at Init: graceful flags, number of bail-out handlers
  phase,               \* "idle" | "failed" | "ended"
  fed,                 \* number of document bytes passed to write() so far
  bufStart,            \* document offset of the first buffered (unconsumed) byte; bytes bufStart..fed are in the Arena iff hasBuf
  hasBuf,
  cap, usage,          \* Arena capacity, accounted usage
  stackCap, depth,     \* open-element stack: capacity (items), elements
  nextLex,             \* index of the next lexeme that has not been emitted as a token
  textDone,            \* bytes of a text lexeme already consumed (text is consumed piecewise)
  pendingLast,         \* a text node is open in the text decoder (its last_in_text_node chunk is still to come)
  inv,                 \* handler invocations so far
  mon,                 \* StreamProto monitor
  cuts                 \* history: bytes fed after each write() (hidden from the state space by VIEW)
vars == <<cuts, M, failAt, GMem, GHandler, NBail, phase, fed, bufStart, hasBuf, cap, usage, stackCap, depth, nextLex, textDone, pendingLast, inv, mon>>

Cfg == [clauses |-> <<"C01", "C10", "C11", "C12", "C15">>, passthru |-> TRUE, gmem |-> GMem, ghandler |-> GHandler,
        max |-> M, nbail |-> NBail, exc |-> <<>>]
Feed(m, e) == P!Step(m, e, Cfg)
RECURSIVE FeedAll(_, _)
FeedAll(m, es) == IF es = <<>> THEN m ELSE FeedAll(Feed(m, Head(es)), Tail(es))
Chunk(a, b) == [e |-> "chunk", b |-> Ids(a, b)]
Ev(k, fail) == [e |-> "ev", k |-> k, fail |-> fail]
Ret(res) == [e |-> "ret", res |-> res, usage |-> usage]
RetU(res, u) == [e |-> "ret", res |-> res, usage |-> u]

Init ==
  /\ M \in Limits /\ failAt \in FailPoints
  /\ GMem \in BOOLEAN /\ GHandler \in BOOLEAN /\ NBail \in BailCounts
  /\ (M = -1 \/ M >= Prealloc)
  /\ phase = "idle" /\ fed = 0 /\ bufStart = 0 /\ hasBuf = FALSE
  /\ cap = Prealloc /\ usage = Prealloc /\ stackCap = 0 /\ depth = 0
  /\ nextLex = 1 /\ textDone = 0 /\ pendingLast = FALSE /\ inv = 0 /\ cuts = <<>>
  /\ mon = FeedAll(P!Init, << [e |-> "call", op |-> "new"], [e |-> "enc"], [e |-> "ret", res |-> "ok"] >>)

Fits(extra) == M = -1 \/ usage + extra <= M

\* ---- the parser + dispatcher over the chunk [bufStart, upto), lexing mode --------------------------------
\* Result of parsing: a record [m (monitor), next, tdone, consumed, usage, scap, depth, inv, err ("" | "err:handler" | "err:mem")]
\* emission: bytes before a lexeme are flushed when its token is produced; the token's own bytes are
\* emitted right after its handlers ran (observers: unchanged bytes)
RECURSIVE ParseFrom(_, _, _)
ParseFrom(s, upto, last) ==
  IF s.err # "" THEN s
  ELSE IF s.next > Len(Doc) THEN
       \* end of input: the Eof lexeme flushes the pending text node (empty chunk flagged last_in_text_node)
       (IF last /\ s.plast THEN
             LET inv1 == s.inv + 1  fail1 == inv1 = failAt  m1 == Feed(s.m, Ev("tx", fail1)) IN
             [s EXCEPT !.m = m1, !.inv = inv1, !.plast = FALSE, !.err = IF fail1 THEN "err:handler" ELSE ""]
        ELSE s)
  ELSE LET i == s.next  lx == Doc[i]  a == StartOf(i)  z == EndOf(i) IN
       IF lx.kind = "text" THEN
            \* text is consumed up to the end of the chunk (eoc arm: emit_text); one handler invocation per piece;
            \* the node is closed (empty chunk with last_in_text_node) only when the next token is handled
            LET from == a + s.tdone  to == IF z <= upto THEN z ELSE upto IN
            IF to <= from THEN (IF z <= upto THEN ParseFrom([s EXCEPT !.next = i + 1, !.tdone = 0], upto, last) ELSE s)
            ELSE LET inv1 == s.inv + 1  fail1 == inv1 = failAt  m1 == Feed(s.m, Ev("tx", fail1)) IN
                 IF fail1 THEN [s EXCEPT !.m = m1, !.inv = inv1, !.err = "err:handler", !.consumed = from]
                 ELSE LET s2 == [s EXCEPT !.m = Feed(m1, Chunk(from, to)), !.inv = inv1, !.plast = TRUE, !.consumed = to] IN
                      IF z <= upto THEN ParseFrom([s2 EXCEPT !.next = i + 1, !.tdone = 0], upto, last)
                      ELSE [s2 EXCEPT !.tdone = to - a]
       ELSE IF z > upto THEN
            \* incomplete tag / comment: at end of input it is flushed raw (no token) after the pending text
            \* node is closed; otherwise it stays buffered
            (IF ~last THEN s
             ELSE LET inv1 == s.inv + 1  fail1 == s.plast /\ inv1 = failAt
                      m1 == IF s.plast THEN Feed(s.m, Ev("tx", fail1)) ELSE s.m IN
                  IF fail1 THEN [s EXCEPT !.m = m1, !.inv = inv1, !.plast = FALSE, !.err = "err:handler", !.consumed = a]
                  ELSE [s EXCEPT !.m = Feed(m1, Chunk(a, upto)), !.inv = IF s.plast THEN inv1 ELSE s.inv, !.plast = FALSE,
                                 !.next = Len(Doc) + 1, !.consumed = upto])
       ELSE IF s.plast THEN
            \* handle_tag first flushes the pending captured text: the empty last chunk of the text node
            LET inv1 == s.inv + 1  fail1 == inv1 = failAt  m1 == Feed(s.m, Ev("tx", fail1)) IN
            IF fail1 THEN [s EXCEPT !.m = m1, !.inv = inv1, !.plast = FALSE, !.err = "err:handler", !.consumed = a]
            ELSE ParseFrom([s EXCEPT !.m = m1, !.inv = inv1, !.plast = FALSE], upto, last)
       ELSE
            \* a complete token: selector stack push for a start tag may hit the limit (before lexeme_consumed)
            LET needPush == lx.kind = "open" /\ s.depth + 1 > s.scap
                grow == IF s.scap > MinCap THEN s.scap ELSE MinCap
                extra == grow * ItemSize IN
            IF needPush /\ ~(M = -1 \/ s.usage + extra <= M)
            THEN [s EXCEPT !.err = "err:mem", !.usage = s.usage + extra, !.consumed = a]
            ELSE LET u2 == IF needPush THEN s.usage + extra ELSE s.usage
                     c2 == IF needPush THEN s.scap + grow ELSE s.scap
                     d2 == IF lx.kind = "open" THEN s.depth + 1 ELSE IF lx.kind = "close" /\ s.depth > 0 THEN s.depth - 1 ELSE s.depth
                     inv1 == s.inv + 1  fail1 == inv1 = failAt
                     m1 == Feed(s.m, Ev("tok", fail1)) IN
                 IF fail1 THEN [s EXCEPT !.m = m1, !.inv = inv1, !.err = "err:handler", !.usage = u2, !.scap = c2, !.depth = d2, !.consumed = a]
                 ELSE ParseFrom([s EXCEPT !.m = Feed(m1, Chunk(a, z)), !.inv = inv1, !.usage = u2, !.scap = c2, !.depth = d2,
                                          !.next = i + 1, !.consumed = z], upto, last)

ParseState(m0) == [m |-> m0, next |-> nextLex, tdone |-> textDone, consumed |-> bufStart, usage |-> usage, scap |-> stackCap,
                   depth |-> depth, inv |-> inv, err |-> "", plast |-> pendingLast]

\* bail-out: handlers (each appends one marker byte, id -1) then the raw flush of everything received but not emitted
RECURSIVE BailEvents(_)
BailEvents(n) == IF n = 0 THEN <<>> ELSE << [e |-> "ev", k |-> "bo", fail |-> FALSE], [e |-> "chunk", b |-> <<-1>>] >> \o BailEvents(n - 1)
Graceful(err) == (err = "err:mem" /\ GMem) \/ (err = "err:handler" /\ GHandler)
BailOut(m, err, from, upto) ==
  IF ~Graceful(err) THEN m
  ELSE LET m1 == FeedAll(m, BailEvents(NBail)) IN IF upto > from THEN Feed(m1, Chunk(from, upto)) ELSE m1

\* ---- write(n): the environment passes the next n bytes ------------------------------------------------------
Write(n) ==
  /\ phase = "idle" /\ n \in 0..(Total - fed)
  /\ cuts' = Append(cuts, fed + n)
  /\ LET upto == fed + n
         m0 == Feed(mon, [e |-> "call", op |-> "write", b |-> Ids(fed, upto)])
         need == upto - bufStart
         extraA == IF hasBuf /\ need > cap THEN need - cap ELSE 0 IN
     IF hasBuf /\ extraA > 0 /\ ~Fits(extraA) THEN
          \* bail-out site 1: Arena::append fails; nothing of buffer or data has been emitted
          /\ mon' = Feed(BailOut(m0, "err:mem", bufStart, upto), RetU("err:mem", usage + extraA))
          /\ phase' = "failed" /\ usage' = usage + extraA /\ fed' = upto
          /\ UNCHANGED <<M, failAt, GMem, GHandler, NBail, bufStart, hasBuf, cap, stackCap, depth, nextLex, textDone, pendingLast, inv>>
     ELSE LET u1 == usage + extraA  c1 == IF hasBuf /\ need > cap THEN need ELSE cap
              r == ParseFrom([ParseState(m0) EXCEPT !.usage = u1], upto, FALSE) IN
          IF r.err # "" THEN
               \* bail-out site 2: the parser failed; remaining_content_start = start of the failing lexeme
               /\ mon' = Feed(BailOut(r.m, r.err, r.consumed, upto), RetU(r.err, r.usage))
               /\ phase' = "failed" /\ usage' = r.usage /\ cap' = c1 /\ fed' = upto /\ inv' = r.inv
               /\ stackCap' = r.scap /\ depth' = r.depth /\ nextLex' = r.next /\ textDone' = r.tdone /\ pendingLast' = r.plast
               /\ UNCHANGED <<M, failAt, GMem, GHandler, NBail, bufStart, hasBuf>>
          ELSE \* flush_remaining_input happened inside ParseFrom (bytes are emitted as their lexemes are consumed)
               IF r.consumed < upto THEN
                    IF hasBuf THEN
                         \* Arena::shift
                         /\ mon' = Feed(r.m, RetU("ok", r.usage))
                         /\ bufStart' = r.consumed /\ hasBuf' = TRUE /\ cap' = c1 /\ usage' = r.usage /\ phase' = "idle"
                         /\ fed' = upto /\ inv' = r.inv /\ stackCap' = r.scap /\ depth' = r.depth /\ nextLex' = r.next /\ textDone' = r.tdone /\ pendingLast' = r.plast
                         /\ UNCHANGED <<M, failAt, GMem, GHandler, NBail>>
                    ELSE LET tail == upto - r.consumed  extraB == IF tail > c1 THEN tail - c1 ELSE 0 IN
                         IF extraB > 0 /\ ~(M = -1 \/ r.usage + extraB <= M) THEN
                              \* bail-out site 3: Arena::init_with fails; the unconsumed tail is flushed raw
                              /\ mon' = Feed(BailOut(r.m, "err:mem", r.consumed, upto), RetU("err:mem", r.usage + extraB))
                              /\ phase' = "failed" /\ usage' = r.usage + extraB /\ fed' = upto /\ inv' = r.inv
                              /\ stackCap' = r.scap /\ depth' = r.depth /\ nextLex' = r.next /\ textDone' = r.tdone /\ pendingLast' = r.plast
                              /\ UNCHANGED <<M, failAt, GMem, GHandler, NBail, bufStart, hasBuf, cap>>
                         ELSE /\ mon' = Feed(r.m, RetU("ok", r.usage + extraB))
                              /\ bufStart' = r.consumed /\ hasBuf' = TRUE /\ cap' = IF tail > c1 THEN tail ELSE c1
                              /\ usage' = r.usage + extraB /\ phase' = "idle" /\ fed' = upto /\ inv' = r.inv
                              /\ stackCap' = r.scap /\ depth' = r.depth /\ nextLex' = r.next /\ textDone' = r.tdone /\ pendingLast' = r.plast
                              /\ UNCHANGED <<M, failAt, GMem, GHandler, NBail>>
               ELSE /\ mon' = Feed(r.m, RetU("ok", r.usage))
                    /\ bufStart' = upto /\ hasBuf' = FALSE /\ cap' = c1 /\ usage' = r.usage /\ phase' = "idle"
                    /\ fed' = upto /\ inv' = r.inv /\ stackCap' = r.scap /\ depth' = r.depth /\ nextLex' = r.next /\ textDone' = r.tdone /\ pendingLast' = r.plast
                    /\ UNCHANGED <<M, failAt, GMem, GHandler, NBail>>

\* ---- end() ------------------------------------------------------------------------------------------------------
End ==
  /\ phase = "idle" /\ fed = Total /\ UNCHANGED cuts
  /\ LET m0 == Feed(mon, [e |-> "call", op |-> "end"])
         r == ParseFrom(ParseState(m0), fed, TRUE) IN
     IF r.err # "" THEN
          /\ mon' = Feed(BailOut(r.m, r.err, r.consumed, fed), [e |-> "ret", res |-> r.err])
          /\ phase' = "failed" /\ inv' = r.inv /\ usage' = r.usage
          /\ UNCHANGED <<M, failAt, GMem, GHandler, NBail, fed, bufStart, hasBuf, cap, stackCap, depth, nextLex, textDone, pendingLast>>
     ELSE \* finish(): the end handler, then the empty chunk
          LET inv1 == r.inv + 1  fail1 == inv1 = failAt  m1 == Feed(r.m, Ev("de", fail1)) IN
          IF fail1 THEN
               /\ mon' = Feed(BailOut(m1, "err:handler", fed, fed), [e |-> "ret", res |-> "err:handler"])
               /\ phase' = "failed" /\ inv' = inv1 /\ usage' = r.usage
               /\ UNCHANGED <<M, failAt, GMem, GHandler, NBail, fed, bufStart, hasBuf, cap, stackCap, depth, nextLex, textDone, pendingLast>>
          ELSE /\ mon' = FeedAll(m1, << [e |-> "chunk", b |-> <<>>], [e |-> "ret", res |-> "ok"] >>)
               /\ phase' = "ended" /\ inv' = inv1 /\ usage' = r.usage
               /\ UNCHANGED <<M, failAt, GMem, GHandler, NBail, fed, bufStart, hasBuf, cap, stackCap, depth, nextLex, textDone, pendingLast>>

\* ---- use after error: the guard panics before anything happens -------------------------------------------------------
Poke ==
  /\ phase = "failed"
  /\ mon' = FeedAll(mon, << [e |-> "call", op |-> "write", b |-> <<0>>], [e |-> "ret", res |-> "panic"] >>)
  /\ phase' = "poked"
  /\ UNCHANGED <<cuts, M, failAt, GMem, GHandler, NBail, fed, bufStart, hasBuf, cap, usage, stackCap, depth, nextLex, textDone, pendingLast, inv>>

Next == (\E n \in 0..Total : Write(n)) \/ End \/ Poke
Spec == Init /\ [][Next]_vars

View == <<M, failAt, GMem, GHandler, NBail, phase, fed, bufStart, hasBuf, cap, usage, stackCap, depth, nextLex, textDone, pendingLast, inv, mon>>

\* ---- properties ----------------------------------------------------------------------------------------------------------
Refines == mon.ok                                   \* the mechanism implements the L0 contract
WhyNot == mon.ok \/ PrintT(<<"CONTRACT", mon.why>>)
\* Tiling: in a running rewriter, what left the sink followed by what is still held is exactly what was written
Tiling == phase = "idle" => mon.out \o Ids(Len(mon.out), fed) = mon.written
\* nothing but an unfinished lexeme (or unread text of the current chunk) is ever held back
HeldIsOneLexeme == phase = "idle" /\ nextLex <= Len(Doc) => fed - Len(mon.out) <= Doc[nextLex].len
\* accounting covers the buffer and the stack
Accounting == usage >= cap + stackCap * ItemSize /\ (phase = "idle" /\ hasBuf => cap >= fed - bufStart) /\ stackCap >= depth
=============================================================================
