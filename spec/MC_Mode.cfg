SPECIFICATION Spec
CONSTANTS
  Inputs <- InputsQuick
  Policies <- Pols
INVARIANT MatchedAll
INVARIANT DeliveredFromRef
INVARIANT AllIsRef
INVARIANT FinalCtx
CHECK_DEADLOCK FALSE
