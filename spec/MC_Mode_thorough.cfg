SPECIFICATION Spec
CONSTANTS
  Inputs <- InputsThorough
  Policies <- Pols
INVARIANT MatchedAll
INVARIANT DeliveredFromRef
INVARIANT AllIsRef
INVARIANT FinalCtx
CHECK_DEADLOCK FALSE
