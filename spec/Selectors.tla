----------------------------- MODULE Selectors -----------------------------
(***************************************************************************)
(* L0: CSS Selectors semantics for the grammar lol-html supports, on the   *)
(* tree that explicit tags induce (C04).  No lol-html mechanism here: no   *)
(* program, no jumps, no counters -- the tree is recomputed from the tag   *)
(* sequence and a selector is evaluated by structural recursion.           *)
(*                                                                         *)
(* Document: sequence of tags                                              *)
(*   [k |-> "st", n |-> name bytes, attrs |-> << <<name, value>> ... >>,   *)
(*    sc |-> self-closing syntax, ns |-> "html" | "svg" | "mathml"]        *)
(*   [k |-> "et", n |-> name bytes]                                        *)
(* Selector list: sequence of complex selectors; a complex selector is a   *)
(* sequence of [comb |-> "" | ">" | " ", comp |-> compound], leftmost      *)
(* first; a compound is a sequence of simple selectors:                    *)
(*   [t |-> "type", n] | [t |-> "univ"] | [t |-> "id", v] | [t |-> "class", v] *)
(*   [t |-> "attr", n, op, v, cs]  op in "", "=", "~=", "|=", "^=", "$=", "*="; cs in "", "i", "s" *)
(*   [t |-> "nth", oftype, a, b]   [t |-> "not", args |-> seq of compounds]*)
(***************************************************************************)
EXTENDS Naturals, Integers, Sequences, FiniteSets

LowerC(c) == IF c >= 65 /\ c <= 90 THEN c + 32 ELSE c
Low(s) == [i \in 1..Len(s) |-> LowerC(s[i])]
EqCI(a, b) == Low(a) = Low(b)
IsSpace(c) == c \in {9, 10, 12, 13, 32}

b_id == <<105, 100>>
b_class == <<99, 108, 97, 115, 115>>

Voids == { <<97,114,101,97>>, <<98,97,115,101>>, <<98,97,115,101,102,111,110,116>>, <<98,103,115,111,117,110,100>>, <<98,114>>,
           <<99,111,108>>, <<101,109,98,101,100>>, <<104,114>>, <<105,109,103>>, <<105,110,112,117,116>>, <<107,101,121,103,101,110>>,
           <<108,105,110,107>>, <<109,101,116,97>>, <<112,97,114,97,109>>, <<115,111,117,114,99,101>>, <<116,114,97,99,107>>, <<119,98,114>> }

\* ---- the tree induced by explicit tags -----------------------------------------------------------
\* Walk the tag sequence with a stack of open elements (indices of their start tags).
\* Result: function from start-tag index to [parent (0 = root), anc (ancestors, innermost last)]
ClosesImmediately(t) == IF t.ns = "html" THEN Low(t.n) \in Voids ELSE t.sc

RECURSIVE PopTo(_, _, _)
\* innermost open element whose name matches: return the stack below it; unchanged if none matches
PopTo(doc, stack, name) ==
  IF stack = <<>> THEN <<>>
  ELSE IF EqCI(doc[stack[Len(stack)]].n, name) THEN SubSeq(stack, 1, Len(stack) - 1)
  ELSE PopTo(doc, SubSeq(stack, 1, Len(stack) - 1), name)
HasOpen(doc, stack, name) == \E i \in 1..Len(stack) : EqCI(doc[stack[i]].n, name)

\* Items other than tags (text, comments, doctype) may be interleaved; every item records the stack of
\* open elements in force when it occurs (for an end tag: before anything is popped).
RECURSIVE Walk(_, _, _, _)
Walk(doc, i, stack, acc) ==
  IF i > Len(doc) THEN acc
  ELSE LET t == doc[i]  acc2 == [acc EXCEPT ![i] = [anc |-> stack]] IN
       IF t.k = "st" THEN Walk(doc, i + 1, IF ClosesImmediately(t) THEN stack ELSE Append(stack, i), acc2)
       ELSE IF t.k = "et" THEN Walk(doc, i + 1, IF HasOpen(doc, stack, t.n) THEN PopTo(doc, stack, t.n) ELSE stack, acc2)
       ELSE Walk(doc, i + 1, stack, acc2)

Tree(doc) == Walk(doc, 1, <<>>, [i \in 1..Len(doc) |-> [anc |-> <<>>]])
Parent(tr, i) == IF tr[i].anc = <<>> THEN 0 ELSE tr[i].anc[Len(tr[i].anc)]
StartTags(doc) == {i \in 1..Len(doc) : doc[i].k = "st"}

\* 1-based index of element i among its element siblings / among siblings of the same type
ChildIndex(doc, tr, i) == Cardinality({j \in StartTags(doc) : j <= i /\ Parent(tr, j) = Parent(tr, i)})
TypeIndex(doc, tr, i) == Cardinality({j \in StartTags(doc) : j <= i /\ Parent(tr, j) = Parent(tr, i) /\ EqCI(doc[j].n, doc[i].n)})

\* ---- attributes -------------------------------------------------------------------------------------
RECURSIVE FirstAttrIdx(_, _, _)
FirstAttrIdx(attrs, name, k) == IF k > Len(attrs) THEN 0 ELSE IF EqCI(attrs[k][1], name) THEN k ELSE FirstAttrIdx(attrs, name, k + 1)
HasAttr(t, name) == FirstAttrIdx(t.attrs, name, 1) # 0
AttrValue(t, name) == t.attrs[FirstAttrIdx(t.attrs, name, 1)][2]

EqCS(a, b, ci) == IF ci THEN EqCI(a, b) ELSE a = b
IsPrefixOf(p, s, ci) == Len(p) <= Len(s) /\ EqCS(SubSeq(s, 1, Len(p)), p, ci)
IsSuffixOf(p, s, ci) == Len(p) <= Len(s) /\ EqCS(SubSeq(s, Len(s) - Len(p) + 1, Len(s)), p, ci)
IsSubstr(p, s, ci) == \E k \in 0..(Len(s) - Len(p)) : EqCS(SubSeq(s, k + 1, k + Len(p)), p, ci)
\* whitespace-separated words of s
WordAt(s, a, b) == /\ a <= b /\ \A k \in a..b : ~IsSpace(s[k])
                   /\ (a = 1 \/ IsSpace(s[a - 1])) /\ (b = Len(s) \/ IsSpace(s[b + 1]))
HasWord(w, s, ci) == \E a \in 1..Len(s) : \E b \in a..Len(s) : WordAt(s, a, b) /\ EqCS(SubSeq(s, a, b), w, ci)

AttrOpMatches(op, val, v, ci) ==
  CASE op = "="  -> EqCS(val, v, ci)
    [] op = "~=" -> v # <<>> /\ (\A k \in 1..Len(v) : ~IsSpace(v[k])) /\ HasWord(v, val, ci)
    [] op = "|=" -> EqCS(val, v, ci) \/ IsPrefixOf(v \o <<45>>, val, ci)
    [] op = "^=" -> v # <<>> /\ IsPrefixOf(v, val, ci)
    [] op = "$=" -> v # <<>> /\ IsSuffixOf(v, val, ci)
    [] op = "*=" -> v # <<>> /\ IsSubstr(v, val, ci)

\* ---- matching ------------------------------------------------------------------------------------------
\* an+b for some integer n >= 0 (the bound on n covers a > 0 and a < 0)
Abs(x) == IF x < 0 THEN 0 - x ELSE x
Nth(a, b, idx) == \E n \in 0..(idx + Abs(b)) : a * n + b = idx

(* mode = "css": the semantics of the standard (L0, the judge).                                        *)
(* mode = "kf-S2": model of known finding S2, used only to classify a rejection: the argument of      *)
(* :not() is flattened -- every simple selector inside it, at any nesting depth, becomes one conjunct  *)
(* whose polarity alternates with the nesting depth (so :not(a.b) reads "not a and not .b").           *)
RECURSIVE SimpleM(_, _, _, _, _), CompoundM(_, _, _, _, _), FlatLeaf(_, _, _, _, _)
SimpleM(doc, tr, i, s, mode) ==
  LET t == doc[i] IN
  CASE s.t = "type"  -> EqCI(t.n, s.n)
    [] s.t = "univ"  -> TRUE
    [] s.t = "id"    -> HasAttr(t, b_id) /\ AttrValue(t, b_id) = s.v
    [] s.t = "class" -> HasAttr(t, b_class) /\ HasWord(s.v, AttrValue(t, b_class), FALSE)
    [] s.t = "attr"  -> /\ HasAttr(t, s.n)
                        /\ (s.op = "" \/ AttrOpMatches(s.op, AttrValue(t, s.n), s.v, s.cs = "i"))
    [] s.t = "nth"   -> LET idx == IF s.oftype THEN TypeIndex(doc, tr, i) ELSE ChildIndex(doc, tr, i) IN
                        Nth(s.a, s.b, idx)
    [] s.t = "not"   -> IF mode = "kf-S2"
                        THEN \A k \in 1..Len(s.args) : \A j \in 1..Len(s.args[k]) : FlatLeaf(doc, tr, i, s.args[k][j], FALSE)
                        ELSE \A k \in 1..Len(s.args) : ~CompoundM(doc, tr, i, s.args[k], mode)
FlatLeaf(doc, tr, i, s, pol) ==
  IF s.t = "not" THEN \A k \in 1..Len(s.args) : \A j \in 1..Len(s.args[k]) : FlatLeaf(doc, tr, i, s.args[k][j], ~pol)
  ELSE SimpleM(doc, tr, i, s, "css") = pol
CompoundM(doc, tr, i, c, mode) == \A k \in 1..Len(c) : SimpleM(doc, tr, i, c[k], mode)

\* complex selector cx[1..m] against element i: the last compound must match i, earlier ones ancestors
RECURSIVE ComplexM(_, _, _, _, _, _)
ComplexM(doc, tr, i, cx, m, mode) ==
  /\ CompoundM(doc, tr, i, cx[m].comp, mode)
  /\ IF m = 1 THEN TRUE
     ELSE LET anc == tr[i].anc IN
          IF cx[m].comb = ">" THEN anc # <<>> /\ ComplexM(doc, tr, anc[Len(anc)], cx, m - 1, mode)
          ELSE \E k \in 1..Len(anc) : ComplexM(doc, tr, anc[k], cx, m - 1, mode)

Matches(doc, tr, i, sel, mode) == \E k \in 1..Len(sel) : ComplexM(doc, tr, i, sel[k], Len(sel[k]), mode)
MatchSetM(doc, sel, mode) == LET tr == Tree(doc) IN {i \in StartTags(doc) : Matches(doc, tr, i, sel, mode)}
MatchSet(doc, sel) == MatchSetM(doc, sel, "css")
=============================================================================
