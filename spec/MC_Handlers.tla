----------------------------- MODULE MC_Handlers -----------------------------
(* Bounded instance of Handlers: every document of <= N items over a small alphabet (tags, void, foreign self-closing, *)
(* text, comment, doctype) plus hand-picked longer ones x handler sets (1-2 selector-associated entries with every     *)
(* relevant flag combination, with / without document-level handlers).                                                 *)
EXTENDS Handlers

na == <<97>>  nb == <<98>>  nbr == <<98, 114>>  nc == <<99>>
St(n, attrs, sc, ns) == [k |-> "st", n |-> n, attrs |-> attrs, sc |-> sc, ns |-> ns]
Et(n) == [k |-> "et", n |-> n]
cls == << <<b_class, nc>> >>
tA == St(na, <<>>, FALSE, "html")  tBc == St(nb, cls, FALSE, "html")  tB == St(nb, <<>>, FALSE, "html")
tBr == St(nbr, <<>>, FALSE, "html")  tSvgSc == St(na, <<>>, TRUE, "svg")
tTx == [k |-> "tx"]  tCm == [k |-> "cm"]  tDt == [k |-> "dt"]
Items == {tA, tBc, Et(na), Et(nb), tTx, tCm, tBr, tSvgSc}
RECURSIVE SeqsUpTo(_, _)
SeqsUpTo(T, n) == IF n = 0 THEN {<<>>} ELSE LET s == SeqsUpTo(T, n - 1) IN s \cup {Append(x, t) : x \in {y \in s : Len(y) = n - 1}, t \in T}
DocsExtra == { <<tDt, tA, tTx, tBc, tCm, Et(na), tTx>>, <<tA, tB, tA, tTx, Et(na), tCm, Et(na), tTx>>, <<tA, tBc, tBc, tTx, Et(na), tB, tTx, Et(nb)>>,
               <<tB, tA, tBr, tTx, Et(nb), tTx, Et(na)>>, <<tA, tA, tTx, Et(na), tTx, Et(na), tTx>>, <<Et(na), tA, Et(nb), tBc, tCm, Et(na)>>,
               <<tA, tB, tBc, Et(nb), tCm, Et(nb), tTx, Et(na)>> }
DocsQuick == SeqsUpTo(Items, 3) \cup DocsExtra
DocsThorough == SeqsUpTo(Items, 4) \cup DocsExtra

Ty(n) == [t |-> "type", n |-> n]
sA == << << [comb |-> "", comp |-> <<Ty(na)>>] >> >>
sB == << << [comb |-> "", comp |-> <<Ty(nb)>>] >> >>
sAny == << << [comb |-> "", comp |-> <<[t |-> "univ"]>>] >> >>
sAB == << << [comb |-> "", comp |-> <<Ty(na)>>], [comb |-> " ", comp |-> <<Ty(nb)>>] >> >>
sCls == << << [comb |-> "", comp |-> <<[t |-> "class", v |-> nc]>>] >> >>
Sels == {sA, sB, sAny, sAB, sCls}
H(sel, el, tx, cm, et) == [sel |-> sel, el |-> el, tx |-> tx, cm |-> cm, et |-> et]
Flags == { <<TRUE, FALSE, FALSE, TRUE>>, <<FALSE, TRUE, FALSE, FALSE>>, <<FALSE, FALSE, TRUE, FALSE>>, <<TRUE, TRUE, TRUE, TRUE>>, <<TRUE, TRUE, FALSE, FALSE>> }
One == { <<H(s, f[1], f[2], f[3], f[4])>> : s \in Sels, f \in Flags }
Two == { <<H(s1, TRUE, TRUE, TRUE, TRUE), H(s2, f[1], f[2], f[3], f[4])>> : s1 \in {sA, sAny}, s2 \in {sA, sB, sAB}, f \in Flags }
DocH == { <<>>, << [dt |-> TRUE, cm |-> TRUE, tx |-> TRUE, de |-> TRUE] >>, << [dt |-> FALSE, cm |-> TRUE, tx |-> FALSE, de |-> TRUE], [dt |-> TRUE, cm |-> FALSE, tx |-> TRUE, de |-> TRUE] >> }
HSQuick == { [elemH |-> e, docH |-> d] : e \in One \cup Two, d \in {<<>>, << [dt |-> TRUE, cm |-> TRUE, tx |-> TRUE, de |-> TRUE] >>} }
HSThorough == { [elemH |-> e, docH |-> d] : e \in One \cup Two, d \in DocH }
=============================================================================
