SPECIFICATION Spec
CONSTANTS
  Doc <- DocA
  Limits <- LimitsReal
  Prealloc = 0
  ItemSize = 104
  MinCap = 8
  FailPoints = {0, 1, 2, 3, 4, 5, 6, 7, 8}
  BailCounts = {0, 2}
VIEW View
INVARIANT Refines
INVARIANT Tiling
INVARIANT HeldIsOneLexeme
INVARIANT Accounting
INVARIANT PrintBehaviour
CHECK_DEADLOCK FALSE
