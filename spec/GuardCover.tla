----------------------------- MODULE GuardCover -----------------------------
(***************************************************************************)
(* Test generation from the specification: a walk over the states of the    *)
(* strict-mode ambiguity guard of TreeSim (default / in select / in         *)
(* template in select at depth d / frameset).  One shortest tag sequence     *)
(* per guard state is printed as a REPLAY line; the harness (job c03)        *)
(* extends each by every pair of tags of the vocabulary and by probes that   *)
(* open a text-mode element around markup, and the real lexer's strict and   *)
(* non-strict token streams are judged against the WHATWG tokenizer driven   *)
(* by the real tree builder (TraceWhatwg).                                   *)
(***************************************************************************)
EXTENDS Naturals, Sequences, TLC, Json, TreeSim

CONSTANTS StartNames, EndNames, MaxTags
VARIABLES inp, tb, nt, dead
vars == <<inp, tb, nt, dead>>

LT == 60  GT == 62  SL == 47
Init == inp = <<>> /\ tb = TSInit(TRUE) /\ nt = 0 /\ dead = FALSE
Next == /\ nt < MaxTags /\ ~dead /\ nt' = nt + 1
        /\ \/ \E n \in StartNames : LET r == TSStart(tb, n, <<>>, FALSE) IN
                 /\ inp' = inp \o <<LT>> \o n \o <<GT>> /\ tb' = r.tb /\ dead' = (r.err \/ r.tt # "")
           \/ \E n \in EndNames : LET r == TSEnd(tb, n) IN
                 /\ inp' = inp \o <<LT, SL>> \o n \o <<GT>> /\ tb' = r.tb /\ dead' = FALSE
Spec == Init /\ [][Next]_vars
View == <<tb.guard, tb.depth, dead>>
Emit == dead \/ PrintT(<<"REPLAY", ToJson([guard_input |-> inp, guard |-> tb.guard, depth |-> tb.depth])>>)
=============================================================================
