------------------------------- MODULE Tok -------------------------------
(***************************************************************************)
(* L0: the WHATWG HTML tokenizer (HTML Standard 13.2.5), transcribed from  *)
(* the standard, over bytes, as a one-shot function                        *)
(*      Tokenize(bytes, fb, strict)  ->  [toks, err, ...]                  *)
(* Differences from the standard that lol-html documents and that are kept *)
(* here on purpose: input is raw bytes (no CR/LF normalisation, no NUL     *)
(* replacement), character references are not decoded (text and attribute  *)
(* values are raw), adjacent character tokens are reported as one text run.*)
(* The tree-construction feedback (which text mode follows a start tag,    *)
(* whether CDATA sections are allowed) is a parameter:                     *)
(*   fb = "sim"  lol-html's simulated feedback (TreeSim.tla)       -> L1   *)
(*   fb = "ref"  the abstract real tree builder (TreeRef.tla)      -> L0   *)
(*   fb = "none" no feedback at all (tokenizing a single construct)        *)
(*                                                                         *)
(* Token: [k, s, e, nm, attrs, sc, tt]                                     *)
(*   k  "st" | "et" | "cm" | "dt" | "tx" | "raw"                           *)
(*   s,e  byte range of the construct, 0-based, half-open                  *)
(*   nm   <<s,e>> range of the tag name / comment data; for "dt" unused    *)
(*   attrs  tags: sequence of <<ns,ne,vs,ve>> (vs=ve=0 when no value)      *)
(*          doctype: <<name, public, system>> each <<s,e,present(0|1)>>    *)
(*   sc   self-closing flag (tags)                                         *)
(*   tt   text type in force for a "tx" run                                *)
(* "raw" marks input that produces no token and is not character data:     *)
(* "</>", CDATA section markers, a tag cut off by EOF.                     *)
(***************************************************************************)
EXTENDS Naturals, Integers, Sequences, TreeSim

EOFC == -1
IsAlpha(c) == (c >= 65 /\ c <= 90) \/ (c >= 97 /\ c <= 122)
IsWs(c) == c \in {9, 10, 12, 13, 32}
Lower(c) == IF c >= 65 /\ c <= 90 THEN c + 32 ELSE c
LowerSeq(s) == [i \in 1..Len(s) |-> Lower(s[i])]

LT == 60   GT == 62   SLASH == 47   BANG == 33   QMARK == 63   DASH == 45
EQ == 61   DQ == 34   SQ == 39     LBR == 91    RBR == 93

\* does seq occur in bytes at 1-based index i (case-insensitively if ci)?
MatchAt(bytes, i, seq, ci) ==
  /\ i + Len(seq) - 1 <= Len(bytes)
  /\ \A j \in 1..Len(seq) :
        IF ci THEN Lower(bytes[i + j - 1]) = Lower(seq[j]) ELSE bytes[i + j - 1] = seq[j]

sDOCTYPE == <<68, 79, 67, 84, 89, 80, 69>>
sCDATA   == <<91, 67, 68, 65, 84, 65, 91>>
sPUBLIC  == <<80, 85, 66, 76, 73, 67>>
sSYSTEM  == <<83, 89, 83, 84, 69, 77>>
sScript  == <<115, 99, 114, 105, 112, 116>>

NoTok == [k |-> "none", s |-> 0, e |-> 0, nm |-> <<0, 0>>, attrs |-> <<>>, sc |-> FALSE, tt |-> "", ns |-> "", ns1 |-> ""]

TextStateOf(tt) ==
  CASE tt = "Data" -> "data" [] tt = "RCData" -> "rcdata" [] tt = "RawText" -> "rawtext"
    [] tt = "ScriptData" -> "scriptdata" [] tt = "PlainText" -> "plaintext" [] tt = "CDataSection" -> "cdata"

InitSm(fb, strict, tt0, last0, cdata0) ==
  [st |-> TextStateOf(tt0), tt |-> tt0, toks |-> <<>>, ts |-> 0, tok |-> NoTok, at |-> <<0, 0, 0, 0>>,
   last |-> last0, tmp |-> 0, cdataOK |-> cdata0, tb |-> TSInit(strict), fb |-> fb, err |-> "",
   re |-> FALSE, skip |-> 0, done |-> FALSE, ret |-> "", wit |-> <<>>, wi |-> 1]

\* flush the pending character run [ts, upto) as one text token
Flush(sm, upto) ==
  IF upto > sm.ts
  THEN [sm EXCEPT !.toks = Append(@, [NoTok EXCEPT !.k = "tx", !.s = sm.ts, !.e = upto, !.tt = sm.tt]), !.ts = upto]
  ELSE sm

\* a construct [s, e) that yields no token and no character data
EmitRaw(sm, s, e) ==
  LET f == Flush(sm, s) IN [f EXCEPT !.toks = Append(@, [NoTok EXCEPT !.k = "raw", !.s = s, !.e = e]), !.ts = e]

Name(bytes, tok) == LowerSeq(SubSeq(bytes, tok.nm[1] + 1, tok.nm[2]))
AttrName(bytes, a) == LowerSeq(SubSeq(bytes, a[1] + 1, a[2]))
AttrVal(bytes, a) == SubSeq(bytes, a[3] + 1, a[4])

\* Emit the current tag token ending at byte offset e (exclusive) and apply tree-builder feedback.
EmitTag(sm, bytes, e) ==
  LET tok == [sm.tok EXCEPT !.e = e]
      f   == Flush(sm, tok.s)
      nm  == Name(bytes, tok)
      r   == IF sm.fb = "sim"
             THEN (IF tok.k = "st"
                   THEN TSStart(sm.tb, nm, [i \in 1..Len(tok.attrs) |-> <<AttrName(bytes, tok.attrs[i]), AttrVal(bytes, tok.attrs[i])>>], tok.sc)
                   ELSE TSEnd(sm.tb, nm))
             ELSE IF sm.fb = "wit"
             \* witnessed feedback: what a real tree builder answered after its i-th tag token
             THEN (IF sm.wi <= Len(sm.wit) THEN [tb |-> sm.tb, tt |-> sm.wit[sm.wi].tt, cdata |-> sm.wit[sm.wi].cdata, err |-> FALSE]
                   ELSE [tb |-> sm.tb, tt |-> "", cdata |-> sm.cdataOK, err |-> FALSE])
             ELSE [tb |-> sm.tb, tt |-> "", cdata |-> sm.cdataOK, err |-> FALSE]
      tt2 == IF r.tt # "" THEN r.tt ELSE "Data"
      \* namespace of the element a start tag creates: svg / math open their namespace; an integration point
      \* (its children are HTML) is itself an element of the enclosing foreign namespace; a tag that breaks
      \* out of foreign content is an HTML element.  ns1 = the simulator's namespace after the tag (what
      \* lol-html reports; differs from ns exactly at integration points, known finding S16).
      before == IF sm.fb = "sim" THEN Cur(sm.tb) ELSE ""
      after  == IF sm.fb = "sim" THEN Cur(r.tb) ELSE ""
      ens == IF tok.k # "st" \/ sm.fb # "sim" THEN ""
             ELSE IF before # "html" /\ after = "html" /\ Len(r.tb.ns) > Len(sm.tb.ns) THEN before
             ELSE after
      tok2 == [tok EXCEPT !.ns = ens, !.ns1 = IF tok.k = "st" THEN after ELSE ""]
  IN [f EXCEPT !.toks = Append(@, tok2), !.ts = e, !.tok = NoTok,
               !.last = IF tok.k = "st" THEN nm ELSE @,
               !.tb = r.tb, !.cdataOK = r.cdata, !.tt = tt2, !.st = TextStateOf(tt2), !.wi = @ + 1,
               !.err = IF r.err THEN "ambiguity" ELSE @, !.done = r.err]

EmitTok(sm, e, next) ==   \* comment / doctype
  LET tok == [sm.tok EXCEPT !.e = e]   f == Flush(sm, tok.s)
  IN [f EXCEPT !.toks = Append(@, tok), !.ts = e, !.tok = NoTok, !.st = next]

To(sm, st) == [sm EXCEPT !.st = st]
Re(sm, st) == [sm EXCEPT !.st = st, !.re = TRUE]
Appropriate(sm, bytes) == sm.last # <<>> /\ Name(bytes, sm.tok) = sm.last

\* "anything else" in the text-mode end tag states: the candidate end tag is character data
BackToText(sm) == Re([sm EXCEPT !.tok = NoTok], sm.ret)

\* finish the attribute under construction (value range vs..ve already set or 0,0)
PushAttr(sm) == [sm EXCEPT !.tok.attrs = Append(@, sm.at), !.at = <<0, 0, 0, 0>>]

(***************************************************************************)
(* One step: consume character c at 1-based index i (p = i-1 is its       *)
(* 0-based offset).  c = EOFC at end of input.                             *)
(***************************************************************************)
Step(sm, bytes, i, c) ==
  LET p == i - 1   st == sm.st IN
  CASE st \in {"data", "rcdata", "rawtext", "scriptdata"} ->
         IF c = LT THEN
              [sm EXCEPT !.st = IF st = "data" THEN "tagopen" ELSE "textlt", !.ret = st,
                         !.tok = [NoTok EXCEPT !.s = p]]
         ELSE IF c = EOFC THEN [Flush(sm, p) EXCEPT !.done = TRUE]
         ELSE sm
    [] st = "plaintext" ->
         IF c = EOFC THEN [Flush(sm, p) EXCEPT !.done = TRUE] ELSE sm
    [] st = "tagopen" ->
         IF c = BANG THEN To(sm, "markupdecl")
         ELSE IF c = SLASH THEN To(sm, "endtagopen")
         ELSE IF IsAlpha(c) THEN [sm EXCEPT !.st = "tagname", !.tok = [@ EXCEPT !.k = "st", !.nm = <<p, p>>]]
         ELSE IF c = QMARK THEN [sm EXCEPT !.st = "boguscomment", !.tok = [@ EXCEPT !.k = "cm", !.nm = <<p, p>>], !.re = TRUE]
         ELSE IF c = EOFC THEN [Flush(sm, p) EXCEPT !.done = TRUE]
         ELSE Re([sm EXCEPT !.tok = NoTok], "data")
    [] st = "endtagopen" ->
         IF IsAlpha(c) THEN [sm EXCEPT !.st = "tagname", !.tok = [@ EXCEPT !.k = "et", !.nm = <<p, p>>]]
         ELSE IF c = GT THEN [EmitRaw(sm, sm.tok.s, p + 1) EXCEPT !.st = "data", !.tok = NoTok]
         ELSE IF c = EOFC THEN [Flush(sm, p) EXCEPT !.done = TRUE]
         ELSE [sm EXCEPT !.st = "boguscomment", !.tok = [@ EXCEPT !.k = "cm", !.nm = <<p, p>>], !.re = TRUE]
    [] st = "tagname" ->
         IF IsWs(c) THEN [sm EXCEPT !.st = "beforeattrname", !.tok.nm = <<@[1], p>>]
         ELSE IF c = SLASH THEN [sm EXCEPT !.st = "selfclosing", !.tok.nm = <<@[1], p>>]
         ELSE IF c = GT THEN EmitTag([sm EXCEPT !.tok.nm = <<@[1], p>>], bytes, p + 1)
         ELSE IF c = EOFC THEN [EmitRaw(sm, sm.tok.s, p) EXCEPT !.done = TRUE]
         ELSE sm
    \* RCDATA / RAWTEXT / script data less-than sign, end tag open, end tag name (13.2.5.9-17)
    [] st = "textlt" ->
         IF c = SLASH THEN To(sm, "textendtagopen")
         ELSE IF c = BANG /\ sm.ret = "scriptdata" THEN To([sm EXCEPT !.tok = NoTok], "scriptescstart")
         ELSE BackToText(sm)
    [] st = "textendtagopen" ->
         IF IsAlpha(c) THEN [sm EXCEPT !.st = "textendtagname", !.tok = [@ EXCEPT !.k = "et", !.nm = <<p, p>>]]
         ELSE BackToText(sm)
    [] st = "textendtagname" ->
         IF IsAlpha(c) THEN sm
         ELSE LET t == [sm EXCEPT !.tok.nm = <<@[1], p>>] IN
              IF IsWs(c) /\ Appropriate(t, bytes) THEN To(t, "beforeattrname")
              ELSE IF c = SLASH /\ Appropriate(t, bytes) THEN To(t, "selfclosing")
              ELSE IF c = GT /\ Appropriate(t, bytes) THEN EmitTag(t, bytes, p + 1)
              ELSE BackToText(sm)
    \* script data escape states (13.2.5.18-33)
    [] st = "scriptescstart" ->
         IF c = DASH THEN To(sm, "scriptescstartdash") ELSE Re(sm, "scriptdata")
    [] st = "scriptescstartdash" ->
         IF c = DASH THEN To(sm, "scriptescdashdash") ELSE Re(sm, "scriptdata")
    [] st = "scriptesc" ->
         IF c = DASH THEN To(sm, "scriptescdash")
         ELSE IF c = LT THEN [sm EXCEPT !.st = "scriptesclt", !.tok = [NoTok EXCEPT !.s = p]]
         ELSE IF c = EOFC THEN [Flush(sm, p) EXCEPT !.done = TRUE]
         ELSE sm
    [] st = "scriptescdash" ->
         IF c = DASH THEN To(sm, "scriptescdashdash")
         ELSE IF c = LT THEN [sm EXCEPT !.st = "scriptesclt", !.tok = [NoTok EXCEPT !.s = p]]
         ELSE IF c = EOFC THEN [Flush(sm, p) EXCEPT !.done = TRUE]
         ELSE To(sm, "scriptesc")
    [] st = "scriptescdashdash" ->
         IF c = DASH THEN sm
         ELSE IF c = LT THEN [sm EXCEPT !.st = "scriptesclt", !.tok = [NoTok EXCEPT !.s = p]]
         ELSE IF c = GT THEN To(sm, "scriptdata")
         ELSE IF c = EOFC THEN [Flush(sm, p) EXCEPT !.done = TRUE]
         ELSE To(sm, "scriptesc")
    [] st = "scriptesclt" ->
         IF c = SLASH THEN [sm EXCEPT !.st = "textendtagopen", !.ret = "scriptesc"]
         ELSE IF IsAlpha(c) THEN [sm EXCEPT !.st = "scriptdescstart", !.tmp = p, !.tok = NoTok, !.re = TRUE]
         ELSE Re([sm EXCEPT !.tok = NoTok], "scriptesc")
    [] st = "scriptdescstart" ->
         IF IsWs(c) \/ c = SLASH \/ c = GT THEN
              To(sm, IF LowerSeq(SubSeq(bytes, sm.tmp + 1, p)) = sScript THEN "scriptdesc" ELSE "scriptesc")
         ELSE IF IsAlpha(c) THEN sm
         ELSE Re(sm, "scriptesc")
    [] st = "scriptdesc" ->
         IF c = DASH THEN To(sm, "scriptdescdash")
         ELSE IF c = LT THEN To(sm, "scriptdesclt")
         ELSE IF c = EOFC THEN [Flush(sm, p) EXCEPT !.done = TRUE]
         ELSE sm
    [] st = "scriptdescdash" ->
         IF c = DASH THEN To(sm, "scriptdescdashdash")
         ELSE IF c = LT THEN To(sm, "scriptdesclt")
         ELSE IF c = EOFC THEN [Flush(sm, p) EXCEPT !.done = TRUE]
         ELSE To(sm, "scriptdesc")
    [] st = "scriptdescdashdash" ->
         IF c = DASH THEN sm
         ELSE IF c = LT THEN To(sm, "scriptdesclt")
         ELSE IF c = GT THEN To(sm, "scriptdata")
         ELSE IF c = EOFC THEN [Flush(sm, p) EXCEPT !.done = TRUE]
         ELSE To(sm, "scriptdesc")
    [] st = "scriptdesclt" ->
         IF c = SLASH THEN [sm EXCEPT !.st = "scriptdescend", !.tmp = p + 1]
         ELSE Re(sm, "scriptdesc")
    [] st = "scriptdescend" ->
         IF IsWs(c) \/ c = SLASH \/ c = GT THEN
              To(sm, IF LowerSeq(SubSeq(bytes, sm.tmp + 1, p)) = sScript THEN "scriptesc" ELSE "scriptdesc")
         ELSE IF IsAlpha(c) THEN sm
         ELSE Re(sm, "scriptdesc")
    \* attributes (13.2.5.32-40)
    [] st = "beforeattrname" ->
         IF IsWs(c) THEN sm
         ELSE IF c = SLASH \/ c = GT \/ c = EOFC THEN Re(sm, "afterattrname")
         ELSE \* "=" starts a name too (unexpected-equals-sign-before-attribute-name)
              [sm EXCEPT !.st = "attrname", !.at = <<p, p, 0, 0>>]
    [] st = "attrname" ->
         IF IsWs(c) \/ c = SLASH \/ c = GT \/ c = EOFC THEN Re([sm EXCEPT !.at = <<@[1], p, 0, 0>>], "afterattrname")
         ELSE IF c = EQ THEN [sm EXCEPT !.st = "beforeattrvalue", !.at = <<@[1], p, 0, 0>>]
         ELSE sm
    [] st = "afterattrname" ->
         \* entered (by reconsume) with sm.at holding a finished name, or <<0,0,0,0>> when none is pending
         LET t == IF sm.at[2] > sm.at[1] THEN PushAttr(sm) ELSE sm IN
         IF IsWs(c) THEN sm
         ELSE IF c = SLASH THEN To(t, "selfclosing")
         ELSE IF c = EQ /\ sm.at[2] > sm.at[1] THEN To(sm, "beforeattrvalue")
         ELSE IF c = GT THEN EmitTag(t, bytes, p + 1)
         ELSE IF c = EOFC THEN [EmitRaw(t, t.tok.s, p) EXCEPT !.done = TRUE]
         ELSE [t EXCEPT !.st = "attrname", !.at = <<p, p, 0, 0>>]
    [] st = "beforeattrvalue" ->
         IF IsWs(c) THEN sm
         ELSE IF c = DQ THEN [sm EXCEPT !.st = "attrvaluedq", !.at = <<@[1], @[2], p + 1, p + 1>>]
         ELSE IF c = SQ THEN [sm EXCEPT !.st = "attrvaluesq", !.at = <<@[1], @[2], p + 1, p + 1>>]
         ELSE IF c = GT THEN EmitTag(PushAttr([sm EXCEPT !.at = <<@[1], @[2], p, p>>]), bytes, p + 1)
         ELSE Re([sm EXCEPT !.at = <<@[1], @[2], p, p>>], "attrvalueunq")
    [] st = "attrvaluedq" ->
         IF c = DQ THEN To(PushAttr([sm EXCEPT !.at = <<@[1], @[2], @[3], p>>]), "afterattrvalueq")
         ELSE IF c = EOFC THEN [EmitRaw(sm, sm.tok.s, p) EXCEPT !.done = TRUE]
         ELSE sm
    [] st = "attrvaluesq" ->
         IF c = SQ THEN To(PushAttr([sm EXCEPT !.at = <<@[1], @[2], @[3], p>>]), "afterattrvalueq")
         ELSE IF c = EOFC THEN [EmitRaw(sm, sm.tok.s, p) EXCEPT !.done = TRUE]
         ELSE sm
    [] st = "attrvalueunq" ->
         IF IsWs(c) THEN To(PushAttr([sm EXCEPT !.at = <<@[1], @[2], @[3], p>>]), "beforeattrname")
         ELSE IF c = GT THEN EmitTag(PushAttr([sm EXCEPT !.at = <<@[1], @[2], @[3], p>>]), bytes, p + 1)
         ELSE IF c = EOFC THEN [EmitRaw(sm, sm.tok.s, p) EXCEPT !.done = TRUE]
         ELSE sm
    [] st = "afterattrvalueq" ->
         IF IsWs(c) THEN To(sm, "beforeattrname")
         ELSE IF c = SLASH THEN To(sm, "selfclosing")
         ELSE IF c = GT THEN EmitTag(sm, bytes, p + 1)
         ELSE IF c = EOFC THEN [EmitRaw(sm, sm.tok.s, p) EXCEPT !.done = TRUE]
         ELSE Re(sm, "beforeattrname")
    [] st = "selfclosing" ->
         IF c = GT THEN EmitTag([sm EXCEPT !.tok.sc = TRUE], bytes, p + 1)
         ELSE IF c = EOFC THEN [EmitRaw(sm, sm.tok.s, p) EXCEPT !.done = TRUE]
         ELSE Re(sm, "beforeattrname")
    \* comments (13.2.5.41-52)
    [] st = "boguscomment" ->
         IF c = GT THEN EmitTok([sm EXCEPT !.tok.nm = <<@[1], p>>], p + 1, "data")
         ELSE IF c = EOFC THEN [EmitTok([sm EXCEPT !.tok.nm = <<@[1], p>>], p, "data") EXCEPT !.done = TRUE]
         ELSE sm
    [] st = "markupdecl" ->
         IF c # EOFC /\ MatchAt(bytes, i, <<DASH, DASH>>, FALSE) THEN
              [sm EXCEPT !.st = "commentstart", !.skip = 1, !.tok = [@ EXCEPT !.k = "cm", !.nm = <<p + 2, p + 2>>]]
         ELSE IF c # EOFC /\ MatchAt(bytes, i, sDOCTYPE, TRUE) THEN
              [sm EXCEPT !.st = "doctype", !.skip = 6,
                         !.tok = [@ EXCEPT !.k = "dt", !.attrs = << <<0, 0, 0>>, <<0, 0, 0>>, <<0, 0, 0>> >>]]
         ELSE IF c # EOFC /\ MatchAt(bytes, i, sCDATA, FALSE) THEN
              (IF sm.cdataOK
               THEN [EmitRaw(sm, sm.tok.s, p + 7) EXCEPT !.st = "cdata", !.skip = 6, !.tok = NoTok, !.tt = "CDataSection"]
               ELSE [sm EXCEPT !.st = "boguscomment", !.tok = [@ EXCEPT !.k = "cm", !.nm = <<p, p>>], !.re = TRUE])
         ELSE [sm EXCEPT !.st = "boguscomment", !.tok = [@ EXCEPT !.k = "cm", !.nm = <<p, p>>], !.re = TRUE]
    [] st = "commentstart" ->
         IF c = DASH THEN To(sm, "commentstartdash")
         ELSE IF c = GT THEN EmitTok(sm, p + 1, "data")
         ELSE Re(sm, "comment")
    [] st = "commentstartdash" ->
         IF c = DASH THEN To(sm, "commentend")
         ELSE IF c = GT THEN EmitTok(sm, p + 1, "data")
         ELSE IF c = EOFC THEN [EmitTok(sm, p, "data") EXCEPT !.done = TRUE]
         ELSE Re([sm EXCEPT !.tok.nm = <<@[1], p>>], "comment")
    [] st = "comment" ->
         IF c = LT THEN [sm EXCEPT !.st = "commentlt", !.tok.nm = <<@[1], p + 1>>]
         ELSE IF c = DASH THEN To(sm, "commentenddash")
         ELSE IF c = EOFC THEN [EmitTok(sm, p, "data") EXCEPT !.done = TRUE]
         ELSE [sm EXCEPT !.tok.nm = <<@[1], p + 1>>]
    [] st = "commentlt" ->
         IF c = BANG THEN [sm EXCEPT !.st = "commentltbang", !.tok.nm = <<@[1], p + 1>>]
         ELSE IF c = LT THEN [sm EXCEPT !.tok.nm = <<@[1], p + 1>>]
         ELSE Re(sm, "comment")
    [] st = "commentltbang" ->
         IF c = DASH THEN To(sm, "commentltbangdash") ELSE Re(sm, "comment")
    [] st = "commentltbangdash" ->
         IF c = DASH THEN To(sm, "commentltbangdashdash") ELSE Re(sm, "commentenddash")
    [] st = "commentltbangdashdash" ->
         Re(sm, "commentend")
    [] st = "commentenddash" ->
         IF c = DASH THEN To(sm, "commentend")
         ELSE IF c = EOFC THEN [EmitTok(sm, p, "data") EXCEPT !.done = TRUE]
         ELSE Re([sm EXCEPT !.tok.nm = <<@[1], p>>], "comment")          \* append "-"
    [] st = "commentend" ->
         IF c = GT THEN EmitTok(sm, p + 1, "data")
         ELSE IF c = BANG THEN To(sm, "commentendbang")
         ELSE IF c = DASH THEN [sm EXCEPT !.tok.nm = <<@[1], p - 1>>]     \* append "-"
         ELSE IF c = EOFC THEN [EmitTok(sm, p, "data") EXCEPT !.done = TRUE]
         ELSE Re([sm EXCEPT !.tok.nm = <<@[1], p>>], "comment")          \* append "--"
    [] st = "commentendbang" ->
         IF c = DASH THEN [sm EXCEPT !.st = "commentenddash", !.tok.nm = <<@[1], p>>]   \* append "--!"
         ELSE IF c = GT THEN EmitTok(sm, p + 1, "data")
         ELSE IF c = EOFC THEN [EmitTok(sm, p, "data") EXCEPT !.done = TRUE]
         ELSE Re([sm EXCEPT !.tok.nm = <<@[1], p>>], "comment")          \* append "--!"
    \* DOCTYPE (13.2.5.53-68)
    [] st = "doctype" ->
         IF IsWs(c) THEN To(sm, "beforedoctypename")
         ELSE IF c = EOFC THEN [EmitTok(sm, p, "data") EXCEPT !.done = TRUE]
         ELSE Re(sm, "beforedoctypename")
    [] st = "beforedoctypename" ->
         IF IsWs(c) THEN sm
         ELSE IF c = GT THEN EmitTok(sm, p + 1, "data")
         ELSE IF c = EOFC THEN [EmitTok(sm, p, "data") EXCEPT !.done = TRUE]
         ELSE [sm EXCEPT !.st = "doctypename", !.tok.attrs[1] = <<p, p, 1>>]
    [] st = "doctypename" ->
         IF IsWs(c) THEN [sm EXCEPT !.st = "afterdoctypename", !.tok.attrs[1] = <<@[1], p, 1>>]
         ELSE IF c = GT THEN EmitTok([sm EXCEPT !.tok.attrs[1] = <<@[1], p, 1>>], p + 1, "data")
         ELSE IF c = EOFC THEN [EmitTok([sm EXCEPT !.tok.attrs[1] = <<@[1], p, 1>>], p, "data") EXCEPT !.done = TRUE]
         ELSE sm
    [] st = "afterdoctypename" ->
         IF IsWs(c) THEN sm
         ELSE IF c = GT THEN EmitTok(sm, p + 1, "data")
         ELSE IF c = EOFC THEN [EmitTok(sm, p, "data") EXCEPT !.done = TRUE]
         ELSE IF MatchAt(bytes, i, sPUBLIC, TRUE) THEN [sm EXCEPT !.st = "afterpublickw", !.skip = 5]
         ELSE IF MatchAt(bytes, i, sSYSTEM, TRUE) THEN [sm EXCEPT !.st = "aftersystemkw", !.skip = 5]
         ELSE Re(sm, "bogusdoctype")
    [] st \in {"afterpublickw", "beforepublicid"} ->
         IF IsWs(c) THEN To(sm, "beforepublicid")
         ELSE IF c = DQ THEN [sm EXCEPT !.st = "publiciddq", !.tok.attrs[2] = <<p + 1, p + 1, 1>>]
         ELSE IF c = SQ THEN [sm EXCEPT !.st = "publicidsq", !.tok.attrs[2] = <<p + 1, p + 1, 1>>]
         ELSE IF c = GT THEN EmitTok(sm, p + 1, "data")
         ELSE IF c = EOFC THEN [EmitTok(sm, p, "data") EXCEPT !.done = TRUE]
         ELSE Re(sm, "bogusdoctype")
    [] st \in {"publiciddq", "publicidsq"} ->
         IF (st = "publiciddq" /\ c = DQ) \/ (st = "publicidsq" /\ c = SQ)
              THEN [sm EXCEPT !.st = "afterpublicid", !.tok.attrs[2] = <<@[1], p, 1>>]
         ELSE IF c = GT THEN EmitTok([sm EXCEPT !.tok.attrs[2] = <<@[1], p, 1>>], p + 1, "data")
         ELSE IF c = EOFC THEN [EmitTok([sm EXCEPT !.tok.attrs[2] = <<@[1], p, 1>>], p, "data") EXCEPT !.done = TRUE]
         ELSE sm
    [] st \in {"afterpublicid", "betweenpubsys"} ->
         IF IsWs(c) THEN To(sm, "betweenpubsys")
         ELSE IF c = GT THEN EmitTok(sm, p + 1, "data")
         ELSE IF c = DQ THEN [sm EXCEPT !.st = "systemiddq", !.tok.attrs[3] = <<p + 1, p + 1, 1>>]
         ELSE IF c = SQ THEN [sm EXCEPT !.st = "systemidsq", !.tok.attrs[3] = <<p + 1, p + 1, 1>>]
         ELSE IF c = EOFC THEN [EmitTok(sm, p, "data") EXCEPT !.done = TRUE]
         ELSE Re(sm, "bogusdoctype")
    [] st \in {"aftersystemkw", "beforesystemid"} ->
         IF IsWs(c) THEN To(sm, "beforesystemid")
         ELSE IF c = DQ THEN [sm EXCEPT !.st = "systemiddq", !.tok.attrs[3] = <<p + 1, p + 1, 1>>]
         ELSE IF c = SQ THEN [sm EXCEPT !.st = "systemidsq", !.tok.attrs[3] = <<p + 1, p + 1, 1>>]
         ELSE IF c = GT THEN EmitTok(sm, p + 1, "data")
         ELSE IF c = EOFC THEN [EmitTok(sm, p, "data") EXCEPT !.done = TRUE]
         ELSE Re(sm, "bogusdoctype")
    [] st \in {"systemiddq", "systemidsq"} ->
         IF (st = "systemiddq" /\ c = DQ) \/ (st = "systemidsq" /\ c = SQ)
              THEN [sm EXCEPT !.st = "aftersystemid", !.tok.attrs[3] = <<@[1], p, 1>>]
         ELSE IF c = GT THEN EmitTok([sm EXCEPT !.tok.attrs[3] = <<@[1], p, 1>>], p + 1, "data")
         ELSE IF c = EOFC THEN [EmitTok([sm EXCEPT !.tok.attrs[3] = <<@[1], p, 1>>], p, "data") EXCEPT !.done = TRUE]
         ELSE sm
    [] st = "aftersystemid" ->
         IF IsWs(c) THEN sm
         ELSE IF c = GT THEN EmitTok(sm, p + 1, "data")
         ELSE IF c = EOFC THEN [EmitTok(sm, p, "data") EXCEPT !.done = TRUE]
         ELSE Re(sm, "bogusdoctype")
    [] st = "bogusdoctype" ->
         IF c = GT THEN EmitTok(sm, p + 1, "data")
         ELSE IF c = EOFC THEN [EmitTok(sm, p, "data") EXCEPT !.done = TRUE]
         ELSE sm
    \* CDATA section (13.2.5.69-71)
    [] st = "cdata" ->
         IF c = RBR /\ MatchAt(bytes, i, <<RBR, RBR, GT>>, FALSE) THEN
              [EmitRaw(sm, p, p + 3) EXCEPT !.st = "data", !.skip = 2, !.tt = "Data"]
         ELSE IF c = EOFC THEN [Flush(sm, p) EXCEPT !.done = TRUE]
         ELSE sm

(***************************************************************************)
(* The driver: feed bytes 1..n then EOF.  Reconsume = same index again.    *)
(***************************************************************************)
RECURSIVE Run(_, _, _)
Run(sm, bytes, i) ==
  IF sm.done THEN sm
  ELSE LET c  == IF i <= Len(bytes) THEN bytes[i] ELSE EOFC
           s1 == Step([sm EXCEPT !.re = FALSE, !.skip = 0], bytes, i, c)
       IN IF c = EOFC /\ ~s1.re THEN [s1 EXCEPT !.done = TRUE]
          ELSE Run(s1, bytes, IF s1.re THEN i ELSE i + 1 + s1.skip)

\* the machine after a prefix of the document (no EOF): used to say what is still undecided
RECURSIVE RunPrefix(_, _, _)
RunPrefix(sm, bytes, i) ==
  IF sm.done \/ i > Len(bytes) THEN sm
  ELSE LET s1 == Step([sm EXCEPT !.re = FALSE, !.skip = 0], bytes, i, bytes[i])
       IN RunPrefix(s1, bytes, IF s1.re THEN i ELSE i + 1 + s1.skip)
AfterPrefix(bytes, fb, strict) == RunPrefix(InitSm(fb, strict, "Data", <<>>, FALSE), bytes, 1)

Tokenize(bytes, fb, strict) == Run(InitSm(fb, strict, "Data", <<>>, FALSE), bytes, 1)
\* the WHATWG tokenizer driven by a witnessed tree builder (L0 for C03)
TokenizeWit(bytes, wit) == Run([InitSm("wit", FALSE, "Data", <<>>, FALSE) EXCEPT !.wit = wit], bytes, 1)
TokenizeFrom(bytes, fb, strict, tt0, last0, cdata0) == Run(InitSm(fb, strict, tt0, last0, cdata0), bytes, 1)

\* everything from the first unfinished construct to the end (what a streaming parser must hold back
\* when only a prefix has arrived): position where the pending, not yet decided construct started
PendingStart(sm, n) == IF sm.tok.k # "none" \/ sm.st \in {"tagopen", "endtagopen", "textlt", "textendtagopen", "markupdecl"}
                       THEN sm.tok.s ELSE n
=============================================================================
