---------------------------- MODULE MC_GuardCover ----------------------------
EXTENDS GuardCover
SN == {n_select, n_template, n_textarea, n_input, n_keygen, n_frameset, n_noframes, n_xmp, n_title, n_script, n_div, n_option}
EN == {n_select, n_template, n_frameset, n_div}
=============================================================================
