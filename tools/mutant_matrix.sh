#!/bin/bash
# Runs every seeded change against the quick check of the property it breaks (and the clean tree against all checks).
cd /verif
echo "== clean"; tools/mutant_test.sh clean C01 C02 C03 C04 C05 C06 C07 C08 C09 C10 C11 C12 C13 C14 C15 C16 C17 C18
for d in seeded/*/; do id=$(basename $d); p=${id%%-*}; tools/mutant_test.sh $id $p; done
