#!/usr/bin/env python3
"""dbg_edit.py <dir> <id>...: print cfg, input, actual sink and Edit!Expected for given record ids."""
import sys, os, json, glob, subprocess, re
d = sys.argv[1]; ids = set(sys.argv[2:])
recs = []; srcs = {}
for f in glob.glob(os.path.join(d, '*.ndjson')):
    for l in open(f):
        r = json.loads(l)
        if r['id'] in ids: recs.append(l)
for f in glob.glob(os.path.join(d, '*.src')):
    for l in open(f):
        s = json.loads(l)
        if s['id'] in ids: srcs[s['id']] = s
open('/verif/work/dbg.ndjson', 'w').write(''.join(recs))
spec = '''---- MODULE DbgEdit ----
EXTENDS TraceEdit
DInit == l = 1 /\\ nbad = 0
DNext == l <= Len(Rec) /\\ PrintT(<<"EXP", Rec[l].id, Expected(Rec[l])>>) /\\ l' = l + 1 /\\ UNCHANGED nbad
DSpec == DInit /\\ [][DNext]_vars
====
'''
open('/verif/spec/DbgEdit.tla', 'w').write(spec)
open('/verif/spec/DbgEdit.cfg', 'w').write('SPECIFICATION DSpec\nCHECK_DEADLOCK FALSE\n')
env = dict(os.environ, TRACE='/verif/work/dbg.ndjson', JAVA_TOOL_OPTIONS='-Xss1g')
out = subprocess.run(['tlc', '-workers', '1', '-metadir', '/verif/work/mddbg', '-config', 'DbgEdit.cfg', 'DbgEdit.tla'], cwd='/verif/spec', env=env, capture_output=True, text=True).stdout
os.remove('/verif/spec/DbgEdit.tla'); os.remove('/verif/spec/DbgEdit.cfg')
flat = re.sub(r'\n\s+', ' ', out)
exp = {}
for m in re.finditer(r'<<\s*"EXP",\s*"([^"]+)",\s*<<(.*?)>>\s*>>', flat):
    exp[m.group(1)] = bytes(int(x) for x in m.group(2).split(',') if x.strip())
for m in re.finditer(r'<<\s*"EXP",\s*"([^"]+)",\s*"(.*?)"\s*>>', flat):
    exp[m.group(1)] = m.group(2).encode()
if not exp: print(out[-2000:])
for l in recs:
    r = json.loads(l); s = srcs[r['id']]
    print('==', r['id']); print('  html   :', s['html']); print('  cfg    :', json.dumps({k: v for k, v in s['cfg'].items() if k in ('elem', 'doc')}))
    print('  actual :', bytes(r['obs'][0]['sink']).decode('utf8', 'replace')); print('  expect :', exp.get(r['id'], b'?').decode('utf8', 'replace'))
