#!/bin/bash
# usage: collect_mutants_proj3.sh Cxx i  -- round 3: the demonstration is a cargo project in /tmp/mut3-Cxx/out/m<i>/ itself
# (path dependencies ../../c-api and ../..); kept as seeded/<Cxx>-m<i+2>/
P=$1; i=$2; j=$((i+2)); WT=/tmp/mut3-$P; d=$WT/out/m$i; LOG=/var/tmp/collect-$P-m$j.log; : > $LOG
cd $WT || exit 2; git checkout -q -- .
export CARGO_TARGET_DIR=$WT/target
(cd $d && cargo test --offline -j6) >> $LOG 2>&1; r_clean=$?
git apply $d/patch.diff >> $LOG 2>&1 || { echo "apply failed"; exit 2; }
(cd $d && cargo test --offline -j6) >> $LOG 2>&1; r_mut=$?
cargo test --offline -j6 >> $LOG 2>&1; r_suite=$?
git checkout -q -- .
echo "RESULT $P m$j demo_clean_rc=$r_clean demo_mutant_rc=$r_mut suite_with_mutant_rc=$r_suite" | tee -a $LOG
if [ $r_clean -eq 0 ] && [ $r_mut -ne 0 ] && [ $r_suite -eq 0 ]; then
  dest=/verif/seeded/$P-m$j; mkdir -p $dest/demo; cp $d/patch.diff $dest/
  rsync -a --exclude target --exclude Cargo.lock --exclude patch.diff --exclude meta.json $d/ $dest/demo/
  python3 - "$d/meta.json" "$dest/meta.json" "$P" "m$j" <<'PY'
import json,sys
src,dst,p,i=sys.argv[1:5]
try: m=json.load(open(src))
except Exception: m={}
json.dump({"property":p,"id":f"{p}-{i}","breaks":m.get("summary",""),"needs":m.get("needs",""),"files":m.get("files",[]),
 "confirmed":{"how":"tools/collect_mutants_proj3.sh in the sub-agent's scratch worktree: the demo cargo project (demo/, path dependencies ../../c-api and ../.. relative to <worktree>/out/m<i>) passes on the clean tree and fails with patch.diff applied; full `cargo test --offline` passes with the patch","demo_passes_clean":True,"demo_fails_with_patch":True,"suite_passes_with_patch":True},
 "origin":"fresh sub-agent given only the property text and a scratch worktree"},open(dst,"w"),indent=1)
PY
  echo "KEPT $dest"
fi
