#!/bin/bash
# usage: collect_mutants3.sh (round 4: worktree /tmp/mut4-Cxx, ids m5, m6) Cxx   -- verify the sub-agent's mutants in its scratch worktree /tmp/mut-Cxx and
# copy the confirmed ones to /verif/seeded/<Cxx>-m<i>/ ; then the worktree is removed.
P=$1; WT=/tmp/mut4-$P; export CARGO_TARGET_DIR=$WT/target; LOG=/var/tmp/collect-$P.log; : > $LOG
cd $WT || exit 2
git checkout -q -- . 
for d in out/m*; do
  [ -f $d/patch.diff ] || continue
  j=$(basename $d); i=m$(( ${j#m} + 4 )); dest=/verif/seeded/$P-$i
  demo=$(ls $d/*.rs 2>/dev/null | head -1)
  tn=seeded_${P}_$i
  echo "== $P $i" >> $LOG
  cp $demo tests/$tn.rs
  # without change: demo passes
  cargo test --offline -j6 --test $tn >> $LOG 2>&1; r_clean=$?
  git apply $d/patch.diff >> $LOG 2>&1 || { echo "apply failed" >> $LOG; rm -f tests/$tn.rs; continue; }
  cargo test --offline -j6 --test $tn >> $LOG 2>&1; r_mut=$?
  rm -f tests/$tn.rs
  cargo test --offline -j6 >> $LOG 2>&1; r_suite=$?
  git checkout -q -- .
  echo "RESULT $P $i demo_clean_rc=$r_clean demo_mutant_rc=$r_mut suite_with_mutant_rc=$r_suite" | tee -a $LOG
  if [ $r_clean -eq 0 ] && [ $r_mut -ne 0 ] && [ $r_suite -eq 0 ]; then
    mkdir -p $dest; cp $d/patch.diff $dest/patch.diff; cp $demo $dest/demo.rs
    python3 - "$d/meta.json" "$dest/meta.json" "$P" "$i" <<'PY'
import json,sys
src,dst,p,i=sys.argv[1:5]
try: m=json.load(open(src))
except Exception: m={}
out={"property":p,"id":f"{p}-{i}","breaks":m.get("summary",""),"needs":m.get("needs",""),"files":m.get("files",[]),
 "confirmed":{"how":"tools/collect_mutants.sh in the sub-agent's scratch worktree: demo.rs as an integration test passes on the clean tree, fails with patch.diff applied; full `cargo test --offline` passes with the patch","demo_passes_clean":True,"demo_fails_with_patch":True,"suite_passes_with_patch":True},
 "origin":"fresh sub-agent given only the property text and a scratch worktree"}
json.dump(out,open(dst,"w"),indent=1)
PY
    echo "KEPT $dest" | tee -a $LOG
  fi
done
cd / && git -C /repo worktree remove --force $WT && echo "removed $WT" >> $LOG
