#!/usr/bin/env python3
"""dbg_judge.py <dir> <TraceModule> [max_examples]: judge all shards in dir, print grouped BADs with sources."""
import sys, os, re, json, glob, subprocess, collections
d, mod = sys.argv[1], sys.argv[2]
mx = int(sys.argv[3]) if len(sys.argv) > 3 else 6
hist = collections.Counter(); ex = collections.defaultdict(list)
for sh in sorted(glob.glob(os.path.join(d, '*.ndjson'))):
    env = dict(os.environ, TRACE=os.path.abspath(sh), JAVA_TOOL_OPTIONS="-Xss1g -Xmx3g")
    out = subprocess.run(["tlc", "-workers", "1", "-metadir", "/verif/work/mddbg", "-config", mod + ".cfg", mod + ".tla"],
                         cwd="/verif/spec", env=env, capture_output=True, text=True).stdout
    out = re.sub(r'\n\s+', ' ', out)
    srcs = {}
    for l in open(sh[:-7] + '.src'):
        v = json.loads(l); srcs[v['id']] = v
    if 'TRACE-END' not in out: print("NO TRACE-END for", sh, out[-1500:])
    for m in re.finditer(r'<<\s*"BAD",\s*"([^"]*)",\s*(\d+),\s*"(.*?)"\s*>>', out):
        why = m.group(3); hist[why] += 1
        if len(ex[why]) < mx: ex[why].append(srcs.get(m.group(1)))
for why, c in hist.most_common():
    print(c, why)
    for s in ex[why]:
        if s is None: continue
        inp = bytes(s.get('input', [])) if isinstance(s.get('input'), list) else s.get('input')
        print("    ", s['id'], inp[:80] if inp is not None else None, s.get('cuts', [])[:8], json.dumps({k: v for k, v in s.get('cfg', {}).items()})[:160])
