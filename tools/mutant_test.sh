#!/bin/bash
# usage: mutant_test.sh <seeded-id> <Cxx> [<Cyy> ...]
# Runs the registered quick checks against a seeded change in an isolated sandbox:
#   /var/tmp/mt/repo   scratch worktree of /repo HEAD with seeded/<id>/patch.diff applied
#   /var/tmp/mt/verif  copy of /verif (working tree) whose harness points at the scratch worktree
# Prints one line per check: DETECTED / MISSED. Nothing in /repo or /verif is touched.
ID=$1; shift
MT=/var/tmp/mt; mkdir -p $MT
exec 9>$MT/lock; flock 9
if [ ! -d $MT/repo/.git ] && [ ! -f $MT/repo/.git ]; then git -C /repo worktree add -q --detach $MT/repo HEAD; fi
git -C $MT/repo checkout -q --detach $(git -C /repo rev-parse HEAD) && git -C $MT/repo checkout -q -- . && git -C $MT/repo clean -qfd -e target
if [ "$ID" != "clean" ]; then git -C $MT/repo apply /verif/seeded/$ID/patch.diff || { echo "APPLY-FAILED $ID"; exit 2; }; fi
rsync -a --delete --exclude harness/target --exclude work --exclude .git --exclude evidence --exclude replays /verif/ $MT/verif/
sed -i "s#path = \"/repo\"#path = \"$MT/repo\"#; s#path = \"/repo/c-api\"#path = \"$MT/repo/c-api\"#" $MT/verif/harness/Cargo.toml
mkdir -p $MT/verif/evidence $MT/verif/replays
for P in "$@"; do
  (cd $MT/verif && VERIF_JVMS=${VERIF_JVMS:-6} bin/check $P --tier quick > $MT/out-$ID-$P.log 2>&1); rc=$?
  nv=$(grep -c '^VIOLATION' $MT/out-$ID-$P.log)
  if [ $rc -eq 1 ] && [ $nv -gt 0 ]; then echo "DETECTED $ID by $P ($nv violation lines) $(grep -m1 'histogram' $MT/out-$ID-$P.log | cut -c1-200)";
  elif [ $rc -eq 0 ]; then echo "MISSED   $ID by $P";
  else echo "ERROR    $ID by $P rc=$rc $(tail -2 $MT/out-$ID-$P.log | tr '\n' ' ' | cut -c1-300)"; fi
done
git -C $MT/repo checkout -q -- .
